module github.com/gokrazy/rsync/verifharness

go 1.25.0

require (
	github.com/gokrazy/rsync v0.0.0
	github.com/landlock-lsm/go-landlock v0.0.0-20250303204525-1544bccde3a3
	golang.org/x/crypto v0.46.0
	golang.org/x/sys v0.39.0
)

require (
	github.com/BurntSushi/toml v1.6.0 // indirect
	github.com/coreos/go-systemd v0.0.0-20191104093116-d3cd4ed1dbcf // indirect
	github.com/google/renameio/v2 v2.0.2 // indirect
	github.com/google/shlex v0.0.0-20191202100458-e7afc7fbc510 // indirect
	github.com/mmcloughlin/md4 v0.1.2 // indirect
	golang.org/x/sync v0.19.0 // indirect
	kernel.org/pub/linux/libs/security/libcap/psx v1.2.70 // indirect
)

replace github.com/gokrazy/rsync => /repo
