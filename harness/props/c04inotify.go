package props

import (
	"encoding/binary"
	"fmt"
	"path/filepath"
	"strings"

	"github.com/gokrazy/rsync/verifharness/core"
	"github.com/gokrazy/rsync/verifharness/drive"
	tm "github.com/gokrazy/rsync/verifharness/treemodel"
	"golang.org/x/sys/unix"
)

// The inotify trace monitor for C04: the kernel logs every directory-entry
// and content event of the destination directories during a free-running
// session. A kill at any instant leaves the tree in a state between two
// logged events, so "old or new in full at every instant" holds iff no
// listed name ever sees an in-place write, a delete or a move-away.

type inEvent struct {
	dir  string
	name string
	mask uint32
}

func (e inEvent) String() string {
	var m []string
	for _, x := range []struct {
		b uint32
		n string
	}{{unix.IN_CREATE, "CREATE"}, {unix.IN_DELETE, "DELETE"}, {unix.IN_MODIFY, "MODIFY"}, {unix.IN_MOVED_FROM, "MOVED_FROM"}, {unix.IN_MOVED_TO, "MOVED_TO"}, {unix.IN_CLOSE_WRITE, "CLOSE_WRITE"}, {unix.IN_ATTRIB, "ATTRIB"}, {unix.IN_OPEN, "OPEN"}} {
		if e.mask&x.b != 0 {
			m = append(m, x.n)
		}
	}
	return fmt.Sprintf("%s/%s:%s", e.dir, e.name, strings.Join(m, "|"))
}

type inWatch struct {
	fd   int
	dirs map[int32]string
}

func newInWatch(root string, rels []string) (*inWatch, error) {
	fd, err := unix.InotifyInit1(unix.IN_NONBLOCK | unix.IN_CLOEXEC)
	if err != nil {
		return nil, err
	}
	w := &inWatch{fd: fd, dirs: map[int32]string{}}
	for _, r := range rels {
		wd, err := unix.InotifyAddWatch(fd, filepath.Join(root, r), unix.IN_CREATE|unix.IN_DELETE|unix.IN_MODIFY|unix.IN_MOVED_FROM|unix.IN_MOVED_TO|unix.IN_CLOSE_WRITE|unix.IN_ATTRIB)
		if err != nil {
			unix.Close(fd)
			return nil, err
		}
		w.dirs[int32(wd)] = r
	}
	return w, nil
}

func (w *inWatch) drain() (evs []inEvent, overflow bool) {
	buf := make([]byte, 1<<20)
	for {
		n, err := unix.Read(w.fd, buf)
		if n <= 0 || err != nil {
			break
		}
		for off := 0; off+unix.SizeofInotifyEvent <= n; {
			wd := int32(binary.LittleEndian.Uint32(buf[off:]))
			mask := binary.LittleEndian.Uint32(buf[off+4:])
			l := int(binary.LittleEndian.Uint32(buf[off+12:]))
			name := strings.TrimRight(string(buf[off+16:off+16+l]), "\x00")
			if mask&unix.IN_Q_OVERFLOW != 0 {
				overflow = true
			}
			evs = append(evs, inEvent{dir: w.dirs[wd], name: name, mask: mask})
			off += unix.SizeofInotifyEvent + l
		}
	}
	unix.Close(w.fd)
	return
}

func c04BuildInotify(tier string) core.Source {
	drive.Quiet()
	arrs := drive.Arrangements
	return core.FuncSource{N: 2 * len(arrs), F: func(i int) core.Result {
		arr := arrs[i%len(arrs)]
		del := i >= len(arrs)
		args := []string{"-rlt"}
		res := core.Result{Case: "inotify trace of the destination directories during a free-running session, arr=" + arr}
		src, dst := c04Trees()
		if del {
			// a deleting run: listed entries whose names sort between a non-empty directory and its contents
			// (one up to date, one stale) and an extraneous entry that gives the deletion pass something to do
			args = append(args, "--delete")
			res.Case += " with --delete"
			same := tm.File("sub.txt", genData(famText, 70, 61), 0o644, tm.Past)
			src = append(src, same, tm.File("sub-v1", genData(famText, 80, 62), 0o644, tm.Past))
			dst = append(dst, same, tm.File("sub-v1", genData(famText, 81, 63), 0o644, tm.Past-9), tm.File("extraneous", []byte("x"), 0o644, tm.Past), tm.File("sub/extraneous", []byte("y"), 0o644, tm.Past))
		}
		dir := workDir()
		defer cleanup(dir)
		src.Materialise(filepath.Join(dir, "src"))
		d := filepath.Join(dir, "dst")
		dst.Materialise(d)
		w, err := newInWatch(d, []string{".", "sub"})
		if err != nil {
			res.Inconcl = "inotify unavailable: " + err.Error()
			return res
		}
		out := drive.Run(drive.Job{Arr: arr, Args: args, Base: dir, Sources: []string{"src/"}, Dest: d})
		evs, overflow := w.drain()
		cnt(&res, "transitions", int64(len(evs)))
		cnt(&res, "states", int64(len(evs))+1)
		cnt(&res, "traces_validated_against_impl", 1)
		if !out.OK() {
			res.Fail = core.Fail("session_failed", out.ErrString(), "arr", arr)
			return res
		}
		if overflow {
			res.Inconcl = "inotify queue overflow"
			return res
		}
		for k, e := range evs {
			p := e.name
			if e.dir != "." {
				p = e.dir + "/" + e.name
			}
			s := src.Find(p)
			if s == nil {
				continue // temp names and unlisted entries
			}
			old := dst.Find(p)
			bad := ""
			switch {
			case e.mask&(unix.IN_MODIFY|unix.IN_CLOSE_WRITE) != 0:
				bad = "written in place"
			case e.mask&(unix.IN_DELETE|unix.IN_MOVED_FROM) != 0:
				bad = "removed or moved away (the name does not exist until the replacement appears)"
			case e.mask&unix.IN_CREATE != 0 && s.Type == tm.Reg:
				bad = "regular file created under its final name (content arrives afterwards)"
			case e.mask&unix.IN_CREATE != 0 && old != nil:
				bad = "created although an entry existed (it must have been removed first)"
			}
			if bad != "" {
				lo, hi := max(0, k-3), min(len(evs), k+3)
				res.Fail = core.Fail("not_atomic", fmt.Sprintf("listed path %q was %s; events around: %v", p, bad, evs[lo:hi]), "arr", arr, "kind", c10TypeNames[s.Type])
				return res
			}
		}
		res.Nontrivial = len(evs) > 0
		res.Outcome = fmt.Sprintf("ok/events>0=%v", len(evs) > 0)
		return res
	}}
}
