package props

import (
	"bytes"
	"context"
	"fmt"
	"io"
	"net"
	"os"
	"path/filepath"
	"regexp"
	"runtime"
	"sort"
	"strings"
	"time"

	"github.com/gokrazy/rsync/internal/rsyncopts"
	"github.com/gokrazy/rsync/internal/rsyncos"
	"github.com/gokrazy/rsync/rsyncclient"
	"github.com/gokrazy/rsync/rsyncd"
	"github.com/gokrazy/rsync/verifharness/core"
	"github.com/gokrazy/rsync/verifharness/drive"
	rp "github.com/gokrazy/rsync/verifharness/refproto"
	tm "github.com/gokrazy/rsync/verifharness/treemodel"
)

// C08 — malformed or hostile peer input ends only that session, with an error.

// field is one typed element of a valid session's byte stream.
type c08Field struct {
	name string
	enc  []byte
	alts [][]byte // alternative encodings (mutations)
	desc []string
}

type c08Builder struct{ f []c08Field }

func le32(v int32) []byte { var w rp.W; w.Int(v); return w.Bytes() }

func (b *c08Builder) Int(name string, v int32, listLen int) {
	f := c08Field{name: name, enc: le32(v)}
	vals := []int32{-2147483648, -2, -1, 0, 1, v - 1, v + 1, 1<<20 - 1, 2147483647}
	if strings.Contains(name, "count") || strings.Contains(name, "length") {
		// count-like / size-like fields stay below 2^20 unless negative (declared huge sizes are outside the guarantee)
		vals = []int32{-2147483648, -2, -1, 0, 1, v - 1, v + 1, 1<<20 - 1}
	}
	if listLen > 0 {
		vals = append(vals, int32(listLen-1), int32(listLen), int32(listLen+1))
	}
	seen := map[int32]bool{v: true}
	for _, x := range vals {
		if seen[x] {
			continue
		}
		seen[x] = true
		f.alts = append(f.alts, le32(x))
		f.desc = append(f.desc, fmt.Sprint(x))
	}
	b.f = append(b.f, f)
}

func (b *c08Builder) Long(name string, v int64) {
	var w rp.W
	w.Long(v)
	f := c08Field{name: name, enc: w.Bytes()}
	for _, x := range []int64{-1, -2, 0, 1, 1<<20 - 1, -1 << 40} {
		if x == v {
			continue
		}
		var a rp.W
		if x == -1 {
			a.Int(-1) // the 64-bit escape followed by whatever comes next
		} else {
			a.Long(x)
		}
		f.alts = append(f.alts, a.Bytes())
		f.desc = append(f.desc, fmt.Sprint(x))
	}
	b.f = append(b.f, f)
}

func (b *c08Builder) Byte(name string, v byte) {
	f := c08Field{name: name, enc: []byte{v}}
	for bit := 0; bit < 8; bit++ {
		f.alts = append(f.alts, []byte{v ^ (1 << bit)})
		f.desc = append(f.desc, fmt.Sprintf("bit%d", bit))
	}
	b.f = append(b.f, f)
}

var c08Names = []string{"", "..", "../x", "/abs", strings.Repeat("n", 4095), strings.Repeat("n", 4096), "*.o", "[", "a?", "+ x", "- x/", "!", "a\x00b", "./.", "x/",
	// filter-rule shapes: slash-only and empty patterns, modifiers without pattern
	"/", "- /", "+ /", "//", "- //", "- ", "+ ", "-", "+", "///", "- /x/", "/x", "- a//b", "- /../x", "-  x", "! x"}

// LenBytes: int32 length followed by the bytes (file names with XMIT_LONG_NAME, filter rules, link targets).
func (b *c08Builder) LenBytes(name string, v []byte) {
	enc := append(le32(int32(len(v))), v...)
	f := c08Field{name: name, enc: enc}
	for _, n := range c08Names {
		if n == string(v) {
			continue
		}
		f.alts = append(f.alts, append(le32(int32(len(n))), n...))
		f.desc = append(f.desc, fmt.Sprintf("%q", trunc(n, 12)))
	}
	// inconsistent lengths
	for _, l := range []int32{-1, -2147483648, 0, int32(len(v)) + 1, 1<<20 - 1, 4096} {
		f.alts = append(f.alts, append(le32(l), v...))
		f.desc = append(f.desc, fmt.Sprintf("len=%d", l))
	}
	b.f = append(b.f, f)
}

// EntryHead: the status byte and the name of a file-list entry as one field, so that
// mutations can switch between the encodings a sender may use (XMIT_SAME_NAME with an
// inherited prefix length, one-byte vs four-byte name length) with hostile values.
func (b *c08Builder) EntryHead(name string, flags byte, nm []byte) {
	enc := append([]byte{flags | rp.XmitLongName}, append(le32(int32(len(nm))), nm...)...)
	f := c08Field{name: name, enc: enc}
	add := func(desc string, e []byte) {
		f.alts = append(f.alts, e)
		f.desc = append(f.desc, desc)
	}
	for _, l1 := range []byte{0, 1, 5, 200, 255} {
		// inherited prefix longer than (or equal to, or shorter than) the previous name
		add(fmt.Sprintf("same-name l1=%d long", l1), append([]byte{flags | rp.XmitLongName | rp.XmitSameName, l1}, append(le32(int32(len(nm))), nm...)...))
		add(fmt.Sprintf("same-name l1=%d short", l1), append([]byte{(flags &^ rp.XmitLongName) | rp.XmitSameName, l1, byte(len(nm))}, nm...))
	}
	add("one-byte length", append([]byte{flags&^rp.XmitLongName | rp.XmitTopDir, byte(len(nm))}, nm...))
	add("one-byte length 255 with short data", append([]byte{flags&^rp.XmitLongName | rp.XmitTopDir, 255}, nm...))
	add("same-name l1=255 l2=255", append([]byte{(flags &^ rp.XmitLongName) | rp.XmitSameName, 255, 255}, bytes.Repeat([]byte{'q'}, 255)...))
	b.f = append(b.f, f)
}

func (b *c08Builder) Raw(name string, v []byte) {
	f := c08Field{name: name, enc: v}
	if len(v) > 0 {
		for _, x := range []byte{0x00, 0x01, 0x7f, 0x80, 0xff} {
			a := append([]byte{}, v...)
			a[0] = x
			f.alts = append(f.alts, a)
			f.desc = append(f.desc, fmt.Sprintf("first=%02x", x))
			a2 := append([]byte{}, v...)
			a2[len(a2)-1] = x
			f.alts = append(f.alts, a2)
			f.desc = append(f.desc, fmt.Sprintf("last=%02x", x))
		}
	}
	b.f = append(b.f, f)
}

func (b *c08Builder) Line(name, v string, alts []string) {
	f := c08Field{name: name, enc: []byte(v + "\n")}
	for _, a := range alts {
		if a == v {
			continue
		}
		f.alts = append(f.alts, []byte(a+"\n"))
		f.desc = append(f.desc, fmt.Sprintf("%q", trunc(a, 30)))
	}
	f.alts = append(f.alts, []byte(v)) // newline missing
	f.desc = append(f.desc, "no-newline")
	b.f = append(b.f, f)
}

func (b *c08Builder) bytes() []byte {
	var out []byte
	for _, f := range b.f {
		out = append(out, f.enc...)
	}
	return out
}

var c08OptRe = regexp.MustCompile(`(?m)^\s+(--[a-zA-Z0-9._-]+)(?:=[A-Z_]+)?(?:, (-[a-zA-Z0-9@]))?`)

// c08OptionPool: every option the parser knows (from its own help texts) alone and with =x, plus the exit-prone ones.
func c08OptionPool() []string {
	osenv := &rsyncos.Env{Stdout: io.Discard, Stderr: io.Discard}
	o := rsyncopts.NewOptionsWithGokrazyDefaults(osenv)
	seen := map[string]bool{}
	var out []string
	add := func(s string) {
		if !seen[s] {
			seen[s] = true
			out = append(out, s)
		}
	}
	for _, txt := range []string{o.Help(), o.DaemonHelp()} {
		for _, m := range c08OptRe.FindAllStringSubmatch(txt, -1) {
			add(m[1])
			add(m[1] + "=x")
			if m[2] != "" {
				add(m[2])
			}
		}
	}
	for _, s := range []string{"--version", "-V", "--help", "-h", "-hh", "--info=help", "--debug=help", "--info=bogus", "--debug=bogus9", "--daemon", "--config=x", "--server", "--sender", "--rsh=/bin/false", "-e", "-e/bin/false", "--port=-1", "--contimeout=x", "--", "-", "--=", "---", "--no-such-option", "-Z", strings.Repeat("-v", 300), "--" + strings.Repeat("x", 5000)} {
		add(s)
	}
	sort.Strings(out)
	return out
}

// ---- the served module

func c08Module() tm.Tree {
	return tm.Tree{
		tm.File("alpha", genData(famText, 100, 1), 0o644, tm.Past),
		tm.D("dir", 0o755, tm.Past),
		tm.File("dir/beta", genData(famHash, 1500, 2), 0o600, tm.Past+1),
		tm.L("link", "alpha"),
		tm.File("zeta", nil, 0o644, tm.Past),
	}
}

// c08Shape builds the client->server byte fields of a valid daemon session.
type c08Shape struct {
	name  string
	build func(opts []string) *c08Builder
}

func c08Handshake(b *c08Builder, module string, args []string, opts []string) {
	b.Line("greeting", "@RSYNCD: 27", []string{"@RSYNCD: 0", "@RSYNCD: 99999999999999999999", "@RSYNCD: -1", "@RSYNCD:", "RSYNCD: 27", "", strings.Repeat("A", 70000)})
	b.Line("module", module, []string{"", "#list", "nosuch", "mod/../x", "../mod", strings.Repeat("m", 70000), "mod\x00"})
	for i, a := range args {
		alts := []string{}
		if strings.HasPrefix(a, "-") {
			alts = opts
		} else {
			alts = []string{"", "..", "mod/../..", "/", "/etc", "mod/" + strings.Repeat("p/", 3000), "nomod/x", "-", "--version"}
		}
		b.Line(fmt.Sprintf("arg%d(%s)", i, a), a, alts)
	}
	b.Line("args-end", "", []string{"--version", "x"})
}

func c08PullRequests(b *c08Builder, nFiles int, regular []int, withSums bool) {
	for _, idx := range regular {
		b.Int(fmt.Sprintf("request-index(%d)", idx), int32(idx), nFiles)
		if withSums {
			basis := genData(famHash, 1500, 2)
			s := rp.MakeSums(basis, rp.LegalHead(len(basis), 700, 16), 0)
			b.Int("sum-count", s.Head.Count, 0)
			b.Int("sum-blength", s.Head.BLen, 0)
			b.Int("sum-s2length", s.Head.S2Len, 0)
			b.Int("sum-remainder", s.Head.Rem, 0)
			for k, blk := range s.Blocks {
				b.Int(fmt.Sprintf("weak%d", k), int32(blk.Weak), 0)
				b.Raw(fmt.Sprintf("strong%d", k), blk.Strong[:])
			}
		} else {
			b.Int("sum-count", 0, 0)
			b.Int("sum-blength", 700, 0)
			b.Int("sum-s2length", 16, 0)
			b.Int("sum-remainder", 0, 0)
		}
	}
	b.Int("phase1", -1, 0)
	b.Int("phase2", -1, 0)
	b.Int("goodbye", -1, 0)
}

func c08Shapes() []c08Shape {
	// sorted module list: ".", "alpha", "dir", "dir/beta", "link", "zeta" -> regular files at 1, 3, 5
	return []c08Shape{
		{"list-modules", func(opts []string) *c08Builder {
			b := &c08Builder{}
			b.Line("greeting", "@RSYNCD: 27", []string{"@RSYNCD: 0", "garbage", ""})
			b.Line("module", "#list", []string{"", "nosuch"})
			return b
		}},
		{"pull", func(opts []string) *c08Builder {
			b := &c08Builder{}
			c08Handshake(b, "mod", []string{"--server", "--sender", "-r", ".", "mod/"}, opts)
			b.Int("filter-end", 0, 0)
			c08PullRequests(b, 6, []int{1, 3, 5}, false)
			return b
		}},
		{"pull-logc-delta", func(opts []string) *c08Builder {
			b := &c08Builder{}
			c08Handshake(b, "mod", []string{"--server", "--sender", "-rlogc", ".", "mod/"}, opts)
			b.Int("filter-end", 0, 0)
			c08PullRequests(b, 6, []int{3}, true)
			return b
		}},
		{"pull-filters", func(opts []string) *c08Builder {
			b := &c08Builder{}
			c08Handshake(b, "mod", []string{"--server", "--sender", "-r", ".", "mod/"}, nil)
			b.LenBytes("filter-rule-1", []byte("- zeta"))
			b.LenBytes("filter-rule-2", []byte("+ alpha"))
			b.Int("filter-end", 0, 0)
			c08PullRequests(b, 5, []int{1, 3}, false)
			return b
		}},
		{"upload", func(opts []string) *c08Builder { return c08Upload(opts, false) }},
		{"upload-delete", func(opts []string) *c08Builder { return c08Upload(opts, true) }},
		{"upload-delta", func(opts []string) *c08Builder { return c08UploadDelta(nil) }},
	}
}

func c08Upload(opts []string, del bool) *c08Builder {
	b := &c08Builder{}
	flags := "-logDtpr"
	args := []string{"--server", flags}
	if del {
		args = append(args, "--delete")
	}
	args = append(args, ".", "up/")
	c08Handshake(b, "up", args, opts)
	if del {
		b.LenBytes("filter-rule", []byte("- keepme"))
		b.Int("filter-end", 0, 0)
	}
	type ent struct {
		name string
		mode int32
		data []byte
		link string
	}
	ents := []ent{{".", rp.SIFDIR | 0o755, nil, ""}, {"f1", rp.SIFREG | 0o644, []byte("uploaded one"), ""}, {"ln", rp.SIFLNK | 0o777, nil, "f1"}, {"sub", rp.SIFDIR | 0o755, nil, ""}, {"sub/f2", rp.SIFREG | 0o600, genData(famText, 300, 7), ""}, {"fifo", rp.SIFIFO | 0o644, nil, ""}}
	for i, e := range ents {
		p := fmt.Sprintf("entry%d(%s).", i, e.name)
		fl := byte(rp.XmitLongName)
		if e.name == "." {
			fl |= rp.XmitTopDir
		}
		if i%2 == 0 {
			b.Byte(p+"flags", fl)
			b.LenBytes(p+"name", []byte(e.name))
		} else {
			b.EntryHead(p+"head", fl&^rp.XmitLongName, []byte(e.name))
		}
		b.Long(p+"size", int64(len(e.data)))
		b.Int(p+"mtime", tm.Past, 0)
		b.Int(p+"mode", e.mode, 0)
		b.Int(p+"uid", 0, 0)
		b.Int(p+"gid", 0, 0)
		if e.mode&rp.SIFMT == rp.SIFIFO {
			b.Int(p+"rdev", 0, 0)
		}
		if e.link != "" {
			b.LenBytes(p+"linktarget", []byte(e.link))
		}
	}
	b.Byte("list-end", 0)
	b.Int("uidlist-end", 0, 0)
	b.Int("gidlist-end", 0, 0)
	b.Int("io-error", 0, 0)
	// sorted: ".", "f1", "fifo", "ln", "sub", "sub/f2" -> regular at 1 and 5
	for _, x := range []struct {
		idx  int32
		data []byte
	}{{1, []byte("uploaded one")}, {5, genData(famText, 300, 7)}} {
		b.Int(fmt.Sprintf("data-index(%d)", x.idx), x.idx, 6)
		b.Int("echo-count", 0, 0)
		b.Int("echo-blength", 700, 0)
		b.Int("echo-s2length", 16, 0)
		b.Int("echo-remainder", 0, 0)
		b.Int("literal-length", int32(len(x.data)), 0)
		b.Raw("literal", x.data)
		b.Int("token-end", 0, 0)
		b.Raw("file-md4", make([]byte, 16)) // the seed is the daemon's choice: the trailer is wrong anyway (error path)
	}
	b.Int("phase1", -1, 0)
	b.Int("phase2", -1, 0)
	return b
}

// c08Basis: the file "f1" that the upload module already holds (2 blocks of 700 bytes + 8).
var c08Basis = genData(famHash, 1408, 88)

// c08UploadDelta: an upload of f1 as a delta against the copy the module already
// holds: the echoed checksum header and the block references are peer input too.
func c08UploadDelta(opts []string) *c08Builder {
	b := &c08Builder{}
	c08Handshake(b, "up", []string{"--server", "-tr", ".", "up/"}, opts)
	for i, e := range []struct {
		name string
		mode int32
		size int64
	}{{".", rp.SIFDIR | 0o755, 4096}, {"f1", rp.SIFREG | 0o644, 1408 + 50}} {
		p := fmt.Sprintf("entry%d(%s).", i, e.name)
		fl := byte(rp.XmitLongName)
		if e.name == "." {
			fl |= rp.XmitTopDir
		}
		b.Byte(p+"flags", fl)
		b.LenBytes(p+"name", []byte(e.name))
		b.Long(p+"size", e.size)
		b.Int(p+"mtime", tm.Past+5, 0)
		b.Int(p+"mode", e.mode, 0)
	}
	b.Byte("list-end", 0)
	b.Int("io-error", 0, 0)
	b.Int("data-index(1)", 1, 2)
	// the header the generator sent for a 1408-byte basis, echoed
	b.Int("sum-count", 3, 0)
	b.Int("sum-blength", 700, 0)
	b.Int("sum-s2length", 16, 0)
	b.Int("sum-remainder", 8, 0)
	b.Int("token-ref(block 0)", -1, 0)
	b.Int("literal-length", 50, 0)
	b.Raw("literal", genData(famText, 50, 9))
	b.Int("token-ref(block 1)", -2, 0)
	b.Int("token-ref(block 2, short)", -3, 0)
	b.Int("token-end", 0, 0)
	b.Raw("file-md4", make([]byte, 16))
	b.Int("phase1", -1, 0)
	b.Int("phase2", -1, 0)
	return b
}

// c08Daemon holds the long-lived server of one worker.
type c08Daemon struct {
	srv  *rsyncd.Server
	dir  string
	want tm.Tree
}

func c08NewDaemon() (*c08Daemon, error) {
	dir := workDir()
	if err := c08Module().Materialise(filepath.Join(dir, "mod")); err != nil {
		return nil, err
	}
	os.MkdirAll(filepath.Join(dir, "up"), 0o755)
	os.WriteFile(filepath.Join(dir, "up", "f1"), c08Basis, 0o644)
	srv, err := rsyncd.NewServer([]rsyncd.Module{{Name: "mod", Path: filepath.Join(dir, "mod")}, {Name: "up", Path: filepath.Join(dir, "up"), Writable: true}}, rsyncd.DontRestrict(), rsyncd.WithStderr(io.Discard), rsyncd.WithLogger(nullLogger{}))
	if err != nil {
		return nil, err
	}
	want, _ := tm.Snapshot(filepath.Join(dir, "mod"), false)
	return &c08Daemon{srv: srv, dir: dir, want: want}, nil
}

// hostile plays raw client bytes against the daemon and returns the server's output.
func (d *c08Daemon) hostile(client []byte) (out []byte, stalled bool) {
	// earlier hostile uploads may legitimately have changed the writable module (e.g. --delete with a
	// mutated list): every session starts from the same module content, so that the delta path is reached
	up := filepath.Join(d.dir, "up")
	if b, err := os.ReadFile(filepath.Join(up, "f1")); err != nil || !bytes.Equal(b, c08Basis) {
		tm.RemoveAll(up)
		os.MkdirAll(up, 0o755)
		os.WriteFile(filepath.Join(up, "f1"), c08Basis, 0o644)
	}
	c2s, s2c := drive.NewPipe(false), drive.NewPipe(true)
	c2s.Write(client)
	c2s.Close()
	done := make(chan struct{})
	go func() {
		defer close(done)
		d.srv.HandleDaemonConn(context.Background(), rsyncd.NewConnection(c2s, s2c, "127.0.0.1:8"))
		s2c.Close()
	}()
	select {
	case <-done:
	case <-time.After(5 * time.Second):
		// A session that stalls (the guarantee excludes stalls) is left behind like a
		// daemon leaves a hung connection behind; what matters is that the daemon keeps
		// serving, which the canonical session checks next. Not an oracle.
		stalled = true
		if os.Getenv("VERIF_DEBUG_DUMP") != "" {
			buf := make([]byte, 1<<20)
			os.WriteFile(fmt.Sprintf("/dev/shm/stall-%d.txt", os.Getpid()), buf[:runtime.Stack(buf, true)], 0o644)
			os.Exit(3)
		}
	}
	return append([]byte{}, s2c.Log.Bytes()...), stalled
}

// canonical runs the valid pull and compares the result.
func (d *c08Daemon) canonical() string {
	dest := filepath.Join(d.dir, "canon")
	tm.RemoveAll(dest)
	c2s, s2c := drive.NewPipe(false), drive.NewPipe(false)
	client, err := rsyncclient.New([]string{"-rlt"}, rsyncclient.DontRestrict(), rsyncclient.WithStderr(io.Discard))
	if err != nil {
		return err.Error()
	}
	done := make(chan struct{})
	go func() {
		defer close(done)
		d.srv.HandleDaemonConn(context.Background(), rsyncd.NewConnection(c2s, s2c, "127.0.0.1:9"))
		s2c.Close()
	}()
	_, cerr := client.RunDaemon(context.Background(), &drive.RW{Reader: s2c, Writer: c2s}, "mod/", []string{dest})
	c2s.Close()
	<-done
	if cerr != nil {
		return "canonical pull failed: " + cerr.Error()
	}
	got, _ := tm.Snapshot(dest, false)
	if d := tm.Diff(d.want, got, tm.Fields{Mtime: true}); len(d) > 0 {
		return "canonical pull returned a wrong tree: " + strings.Join(d, ";")
	}
	return ""
}

type c08Mut struct {
	shape  int
	field  int // -1: truncation, -2: byte substitution
	alt    int
	off    int
	subst  byte
	second int // second mutated field (pairs), -1 none
	secAlt int
	descr  string
}

func c08ApplyMut(b *c08Builder, m c08Mut) []byte {
	switch m.field {
	case -1:
		return b.bytes()[:m.off]
	case -2:
		x := append([]byte{}, b.bytes()...)
		x[m.off] = m.subst
		return x
	}
	var out []byte
	for i, f := range b.f {
		switch {
		case i == m.field:
			out = append(out, f.alts[m.alt]...)
		case i == m.second:
			out = append(out, f.alts[m.secAlt]...)
		default:
			out = append(out, f.enc...)
		}
	}
	return out
}

func c08BuildDaemon(tier string) core.Source {
	drive.Quiet()
	opts := c08OptionPool()
	shapes := c08Shapes()
	var builders []*c08Builder
	var muts []c08Mut
	for si, sh := range shapes {
		b := sh.build(opts)
		builders = append(builders, b)
		for fi, f := range b.f {
			for ai := range f.alts {
				muts = append(muts, c08Mut{shape: si, field: fi, alt: ai, second: -1, descr: fmt.Sprintf("%s: %s -> %s", sh.name, f.name, f.desc[ai])})
			}
		}
		total := len(b.bytes())
		for off := 0; off < total; off++ {
			muts = append(muts, c08Mut{shape: si, field: -1, off: off, second: -1, descr: fmt.Sprintf("%s: truncated after %d of %d bytes", sh.name, off, total)})
		}
		// every pair of deviations inside one checksum header (count, block length, strong length, remainder):
		// the header's fields are validated against each other, so a single deviation is often refused early
		for fi := range b.f {
			if b.f[fi].name != "sum-count" {
				continue
			}
			for x := fi; x < fi+4; x++ {
				for y := x + 1; y < fi+4; y++ {
					for ai := range b.f[x].alts {
						for aj := range b.f[y].alts {
							muts = append(muts, c08Mut{shape: si, field: x, alt: ai, second: y, secAlt: aj, descr: fmt.Sprintf("%s: %s -> %s and %s -> %s", sh.name, b.f[x].name, b.f[x].desc[ai], b.f[y].name, b.f[y].desc[aj])})
						}
					}
				}
			}
		}
		if tier == "thorough" {
			for off := 0; off < total; off++ {
				for _, x := range []byte{0x00, 0x01, 0x7f, 0x80, 0xff} {
					muts = append(muts, c08Mut{shape: si, field: -2, off: off, subst: x, second: -1, descr: fmt.Sprintf("%s: byte %d := %02x", sh.name, off, x)})
				}
			}
			// pairs of mutations within the sum head / file entry fields (adjacent fields)
			for fi := 0; fi+1 < len(b.f); fi++ {
				if strings.HasPrefix(b.f[fi].name, "arg") || strings.HasPrefix(b.f[fi+1].name, "arg") {
					continue
				}
				for ai := range b.f[fi].alts {
					for aj := range b.f[fi+1].alts {
						if (ai+aj)%3 != 0 {
							continue
						}
						muts = append(muts, c08Mut{shape: si, field: fi, alt: ai, second: fi + 1, secAlt: aj, descr: fmt.Sprintf("%s: %s -> %s and %s -> %s", sh.name, b.f[fi].name, b.f[fi].desc[ai], b.f[fi+1].name, b.f[fi+1].desc[aj])})
					}
				}
			}
		}
	}
	var d *c08Daemon
	const batch = 8
	n := (len(muts) + batch - 1) / batch
	return core.FuncSource{N: n, F: func(i int) core.Result {
		lo, hi := i*batch, min((i+1)*batch, len(muts))
		res := core.Result{Case: fmt.Sprintf("hostile client sessions %d..%d against one daemon: %s … %s", lo, hi-1, muts[lo].descr, muts[hi-1].descr)}
		if d == nil {
			var err error
			d, err = c08NewDaemon()
			if err != nil {
				res.Inconcl = err.Error()
				return res
			}
			if msg := d.canonical(); msg != "" {
				res.Inconcl = "harness: canonical session fails on a fresh daemon: " + msg
				return res
			}
		}
		reached := 0
		for _, m := range muts[lo:hi] {
			core.Note("C08-CASE %s", m.descr) // lands in the crash report if the process dies
			out, stalled := d.hostile(c08ApplyMut(builders[m.shape], m))
			cnt(&res, "transitions", 1)
			if stalled {
				cnt(&res, "stalled_sessions", 1)
				res.Case += " [stalled: " + m.descr + "]"
				res.Outcome = "stalled"
			}
			if len(out) > 12 {
				reached++
			}
			if msg := d.canonical(); msg != "" {
				res.Fail = core.Fail("daemon_broken_after_hostile_session", m.descr+": "+msg, "shape", shapes[m.shape].name)
				return res
			}
		}
		cnt(&res, "states", res.Counters["transitions"])
		cnt(&res, "traces_validated_against_impl", res.Counters["transitions"])
		res.Nontrivial = reached > 0
		if res.Outcome == "" {
			res.Outcome = fmt.Sprintf("survived/reached>0=%v", reached > 0)
		}
		return res
	}}
}

// c08BuildVanishing: a client with well-formed requests that stops reading and
// drops the connection in the middle of the server's answer (after N bytes of a
// 24 MiB file); the same daemon must serve the canonical pull correctly right
// afterwards, while whatever the dropped session left behind is still winding down.
func c08BuildVanishing(tier string) core.Source {
	drive.Quiet()
	cuts := []int{0, 1, 13, 4096, 65536, 1 << 20, 8 << 20}
	type cs struct {
		cut  int
		sums bool
	}
	var cases []cs
	for _, c := range cuts {
		cases = append(cases, cs{c, false}, cs{c, true})
	}
	var d *c08Daemon
	bigData := genData(famHash, 24<<20, 808)
	return core.FuncSource{N: len(cases), F: func(i int) core.Result {
		c := cases[i]
		res := core.Result{Case: fmt.Sprintf("client drops the connection after reading %d bytes of a 24 MiB download (block sums sent: %v); canonical pull follows at once", c.cut, c.sums)}
		if d == nil {
			var err error
			d, err = c08NewDaemon()
			if err != nil {
				res.Inconcl = err.Error()
				return res
			}
			tm.Tree{tm.File("big", bigData, 0o644, tm.Past)}.Materialise(filepath.Join(d.dir, "bigmod"))
			d.srv, err = rsyncd.NewServer([]rsyncd.Module{{Name: "mod", Path: filepath.Join(d.dir, "mod")}, {Name: "up", Path: filepath.Join(d.dir, "up"), Writable: true}, {Name: "bigmod", Path: filepath.Join(d.dir, "bigmod")}},
				rsyncd.DontRestrict(), rsyncd.WithStderr(io.Discard), rsyncd.WithLogger(nullLogger{}))
			if err != nil {
				res.Inconcl = err.Error()
				return res
			}
		}
		for round := 0; round < 3; round++ {
			c2s, s2c := drive.NewPipe(false), drive.NewPipe(false)
			done := make(chan struct{})
			go func() {
				defer close(done)
				d.srv.HandleDaemonConn(context.Background(), rsyncd.NewConnection(c2s, s2c, "127.0.0.1:8"))
				s2c.Close()
			}()
			var w rp.W
			w.Int(0) // end of filter list
			w.Int(1) // "big"
			if c.sums {
				basis := bigData[:1<<20]
				sm := rp.MakeSums(basis, rp.LegalHead(len(basis), 1024, 16), 0)
				sm.Write(&w)
			} else {
				rp.SumHead{Count: 0, BLen: 700, S2Len: 16}.Write(&w)
			}
			c2s.Write([]byte("@RSYNCD: 27\nbigmod\n--server\n--sender\n-r\n.\nbigmod/\n\n"))
			c2s.Write(w.Bytes())
			buf := make([]byte, 32768)
			for got := 0; got < c.cut; {
				n, err := s2c.Read(buf[:min(len(buf), c.cut-got)])
				got += n
				if err != nil {
					break
				}
			}
			s2c.Close()
			c2s.Close()
			cnt(&res, "transitions", 1)
			if msg := d.canonical(); msg != "" {
				res.Fail = core.Fail("daemon_broken_after_hostile_session", res.Case+": "+msg, "part", "vanishing")
				return res
			}
			<-done
		}
		cnt(&res, "states", res.Counters["transitions"])
		cnt(&res, "traces_validated_against_impl", res.Counters["transitions"])
		res.Nontrivial = true
		res.Outcome = "survived/vanishing"
		return res
	}}
}

// ---- hostile server against the real client

func c08ServerStream(pull bool) *c08Builder {
	b := &c08Builder{}
	b.Int("server-version", 27, 0)
	b.Int("seed", 0x0c08, 0)
	return b
}

// c08ClientPullFields: the multiplexed payload a sending server produces for the module tree.
func c08ClientPullFields() (pre *c08Builder, payload *c08Builder) {
	pre = &c08Builder{}
	pre.Int("server-version", 27, 0)
	pre.Int("seed", 0x0c08, 0)
	b := &c08Builder{}
	mod := c08Module()
	type ent struct {
		e tm.Entry
	}
	list := append(tm.Tree{tm.D(".", 0o755, tm.Past)}, mod...)
	for i, e := range list {
		p := fmt.Sprintf("entry%d(%s).", i, e.Path)
		fl := byte(rp.XmitLongName)
		if e.Path == "." {
			fl |= rp.XmitTopDir
		}
		if i%2 == 0 {
			b.Byte(p+"flags", fl)
			b.LenBytes(p+"name", []byte(e.Path))
		} else {
			b.EntryHead(p+"head", fl&^rp.XmitLongName, []byte(e.Path))
		}
		b.Long(p+"size", int64(len(e.Data)))
		b.Int(p+"mtime", int32(e.Mtime), 0)
		b.Int(p+"mode", modeBits(e), 0)
		if e.Type == tm.Link {
			b.LenBytes(p+"linktarget", []byte(e.Target))
		}
	}
	b.Byte("list-end", 0)
	b.Int("io-error", 0, 0)
	// sorted: ".", alpha(1), dir, dir/beta(3), link, zeta(5)
	for _, x := range []struct {
		idx  int32
		name string
	}{{1, "alpha"}, {3, "dir/beta"}, {5, "zeta"}} {
		data := mod.Find(x.name).Data
		b.Int(fmt.Sprintf("data-index(%d)", x.idx), x.idx, 6)
		b.Int("echo-count", 0, 0)
		b.Int("echo-blength", 700, 0)
		b.Int("echo-s2length", 16, 0)
		b.Int("echo-remainder", 0, 0)
		if len(data) > 0 {
			b.Int("literal-length", int32(len(data)), 0)
			b.Raw("literal", data)
		}
		b.Int("token-end", 0, 0)
		sum := rp.FileSum(0x0c08, data)
		b.Raw("file-md4", sum[:])
	}
	b.Int("phase1-ack", -1, 0)
	b.Int("phase2-ack", -1, 0)
	b.Long("stats-read", 100)
	b.Long("stats-written", 200)
	b.Long("stats-size", 300)
	return pre, b
}

func c08BuildClient(tier string) core.Source {
	drive.Quiet()
	pre, pay := c08ClientPullFields()
	type cm struct {
		kind  int // 0 payload field mutation, 1 payload truncation, 2 frame header mutation, 3 pre-field mutation, 4 raw truncation of whole stream
		field int
		alt   int
		off   int
		descr string
	}
	var muts []cm
	for fi, f := range pay.f {
		for ai := range f.alts {
			muts = append(muts, cm{0, fi, ai, 0, fmt.Sprintf("server payload: %s -> %s", f.name, f.desc[ai])})
		}
	}
	for off := 0; off < len(pay.bytes()); off++ {
		muts = append(muts, cm{1, 0, 0, off, fmt.Sprintf("server payload truncated after %d bytes", off)})
	}
	hdrs := []uint32{0, 0x07000000 | 0xffffff, 0x06000000 | 5, 0x08000000 | 5, 0x09000000 | 5, 0x0a000000, 0xff000000 | 10, 0x07000000 | 300000, 0x07000000 | 262145, 0x08000000, 0x7fffffff, 0xffffffff}
	for hi := range hdrs {
		muts = append(muts, cm{2, hi, 0, 0, fmt.Sprintf("first frame header := %#08x", hdrs[hi])})
	}
	for fi, f := range pre.f {
		for ai := range f.alts {
			muts = append(muts, cm{3, fi, ai, 0, fmt.Sprintf("server handshake: %s -> %s", f.name, f.desc[ai])})
		}
	}
	// complete frames of every size class (the length field has 24 bits) and every tag, delivered with
	// their whole payload at several positions of the session
	bigLens := []int{0, 1, 4095, 4096, 65535, 65536, 262143, 262144, 262145, 300000, 1<<20 - 1, 1 << 20, 1<<24 - 1}
	bigTags := []int{rp.TagData, rp.TagError, rp.TagInfo, 3, 4, 6, 42, 248}
	bigPos := []int{0, 7, 200, len(pay.bytes()) - 30}
	for _, l := range bigLens {
		for _, tg := range bigTags {
			for pi, pos := range bigPos {
				muts = append(muts, cm{5, tg, l, pi, fmt.Sprintf("complete frame tag=%d length=%d at payload offset %d", tg, l, pos)})
			}
		}
	}
	const batch = 8
	n := (len(muts) + batch - 1) / batch
	return core.FuncSource{N: n, F: func(i int) core.Result {
		lo, hi := i*batch, min((i+1)*batch, len(muts))
		res := core.Result{Case: fmt.Sprintf("hostile server sessions %d..%d against the library client: %s … %s", lo, hi-1, muts[lo].descr, muts[hi-1].descr)}
		errs := 0
		for _, m := range muts[lo:hi] {
			core.Note("C08-CASE %s", m.descr)
			payload := pay.bytes()
			prefix := pre.bytes()
			var stream []byte
			switch m.kind {
			case 0:
				payload = c08ApplyMut(pay, c08Mut{field: m.field, alt: m.alt, second: -1})
			case 1:
				payload = payload[:m.off]
			case 3:
				prefix = c08ApplyMut(pre, c08Mut{field: m.field, alt: m.alt, second: -1})
			}
			stream = append(stream, prefix...)
			if m.kind == 5 {
				pos, l := bigPos[m.off], m.alt
				for off := 0; off < pos; off += 500 {
					stream = append(stream, rp.EncodeFrame(rp.TagData, payload[off:min(off+500, pos)])...)
				}
				body := make([]byte, l)
				rest := payload[pos:]
				if m.field == rp.TagData {
					n := copy(body, rest)
					rest = rest[n:]
				}
				stream = append(stream, rp.EncodeFrame(m.field, body)...)
				for off := 0; off < len(rest); off += 500 {
					stream = append(stream, rp.EncodeFrame(rp.TagData, rest[off:min(off+500, len(rest))])...)
				}
			} else if m.kind == 2 {
				var w rp.W
				w.Int(int32(hdrs[m.field]))
				stream = append(stream, w.Bytes()...)
				stream = append(stream, payload...)
			} else {
				for off := 0; off < len(payload); off += 500 {
					stream = append(stream, rp.EncodeFrame(rp.TagData, payload[off:min(off+500, len(payload))])...)
				}
			}
			dir := workDir()
			client, err := rsyncclient.New([]string{"-rlt"}, rsyncclient.DontRestrict(), rsyncclient.WithStderr(io.Discard))
			if err != nil {
				res.Inconcl = err.Error()
				return res
			}
			_, cerr := client.Run(context.Background(), &drive.RW{Reader: bytes.NewReader(stream), Writer: io.Discard}, []string{filepath.Join(dir, "dst")})
			cleanup(dir)
			cnt(&res, "transitions", 1)
			if cerr != nil {
				errs++
			}
		}
		cnt(&res, "states", res.Counters["transitions"])
		cnt(&res, "traces_validated_against_impl", res.Counters["transitions"])
		res.Nontrivial = errs > 0
		res.Outcome = fmt.Sprintf("client-survived/errors>0=%v", errs > 0)
		return res
	}}
}

func init() {
	core.Register(&core.Prop{
		ID:    "C08",
		Level: "model_checking",
		Rule: "daemon: seven valid daemon-session shapes (module listing, pull, pull with -logc and real block sums, pull with filter rules, upload, upload with --delete, delta upload against a copy the module already holds with echoed checksum header and block references) are built as typed field sequences; at EVERY field every value of its type's boundary set is substituted (ints: -2^31,-2,-1,0,1,v-1,v+1,2^20-1,2^31-1 and list-length+-1 for indices; flag bytes: every single bit; names/rules/link targets: empty, dot-dot, absolute, 4095/4096 bytes, wildcards, NUL, and inconsistent lengths incl. negative; greeting/module lines; EVERY option the parser knows (from its help texts) alone and with =x on every option line, plus --version/--help/--info=help/-h/--daemon/...), and the stream is truncated at EVERY byte offset (thorough: bytes {00,01,7f,80,ff} substituted at every offset and pairs of adjacent field mutations); after each hostile session the same daemon must serve the canonical valid pull correctly. vanishing: a client with well-formed requests drops the connection after 0..8 MiB of a 24 MiB download (with and without block sums), 3 rounds each, and the canonical pull must be served correctly at once. client-cli: the gokr-rsync command in its own process (listing without destination, -n, --delete, plain pull) against a scripted daemon on a loopback socket sending the valid pull answer (file data the listing never asked for) and one boundary mutation per field: the process must not die. client: the library client is fed a hostile server's stream with the same mutations at every field of the file list / responses, truncation at every payload offset, malformed frame headers, and complete frames of 13 lengths (0..2^24-1 around 4 KiB, 64 KiB, 256 KiB, 1 MiB) x 8 tags x 4 positions delivered with their whole payload. " +
			"oracle: the process neither crashes nor exits (a dying worker is attributed to the journalled case) and the daemon keeps serving; states/transitions = hostile sessions; non-trivial = session that got past the handshake",
		Assum: []string{"count-like fields stay below 2^20 unless negative; every hostile peer closes its connection; stalls are outside the guarantee"},
		Parts: func(tier string) []core.Part {
			return []core.Part{{Name: "daemon", Build: c08BuildDaemon}, {Name: "client", Build: c08BuildClient}, {Name: "client-daemon", Build: c08BuildClientDaemon}, {Name: "vanishing", Build: c08BuildVanishing}, {Name: "client-cli", Build: c08BuildClientCLI}}
		},
	})
}

// c08HostileDaemon plays a daemon on conn: greeting, then (like a real daemon) the status
// lines, and only after the client's argument lines have arrived (empty line) the rest
// of the stream. The client's handshake reader is line buffered: bytes sent before the
// arguments arrive would be swallowed by it.
func c08HostileDaemon(conn io.ReadWriter, greeting, status string, rest []byte) {
	conn.Write([]byte(greeting))
	conn.Write([]byte(status))
	// wait for the end of the client's argument lines — but not forever: after a hostile greeting or
	// status the client may be waiting for us instead (a stalled peer is outside the guarantee; going on
	// and closing ends the session either way). The delay decides only how far a session gets, no verdict.
	args := make(chan struct{})
	go func() {
		defer close(args)
		seen := []byte{}
		buf := make([]byte, 4096)
		for !bytes.Contains(seen, []byte("\n\n")) && len(seen) < 1<<20 {
			n, err := conn.Read(buf)
			seen = append(seen, buf[:n]...)
			if err != nil {
				return
			}
		}
	}()
	select {
	case <-args:
	case <-time.After(400 * time.Millisecond):
	}
	conn.Write(rest)
}

// c08BuildClientCLI: the gokr-rsync command itself (own process, default
// sandbox) as the victim of a hostile daemon on a loopback socket, in the modes
// the library client does not have: module listing without destination, -n,
// several option sets. The daemon's stream is the valid pull answer (which
// carries file data the listing client never asked for) and its mutations.
func c08BuildClientCLI(tier string) core.Source {
	drive.Quiet()
	_, pay := c08ClientPullFields()
	type cs struct {
		args  []string
		dest  bool
		field int // -1: unmutated; else index of the mutated payload field (first alternative)
		alt   int
	}
	var cases []cs
	modes := []struct {
		args []string
		dest bool
	}{{nil, false}, {[]string{"-r"}, false}, {[]string{"-rlt"}, true}, {[]string{"-rltn"}, true}, {[]string{"-rn"}, false}, {[]string{"-a", "--delete"}, true}, {[]string{"-r", "--delete"}, false}, {[]string{"-rc"}, false}}
	for _, m := range modes {
		cases = append(cases, cs{m.args, m.dest, -1, 0})
		for fi, f := range pay.f {
			// one boundary value per field keeps the number of child processes moderate
			if len(f.alts) > 0 && (tier == "thorough" || fi%3 == 0) {
				cases = append(cases, cs{m.args, m.dest, fi, (fi / 3) % len(f.alts)})
			}
		}
	}
	return core.FuncSource{N: len(cases), F: func(i int) core.Result {
		c := cases[i]
		payload := pay.bytes()
		descr := "valid pull answer"
		if c.field >= 0 {
			payload = c08ApplyMut(pay, c08Mut{field: c.field, alt: c.alt, second: -1})
			descr = fmt.Sprintf("%s -> %s", pay.f[c.field].name, pay.f[c.field].desc[c.alt])
		}
		res := core.Result{Case: fmt.Sprintf("gokr-rsync %v rsync://…/mod/ (destination given: %v) against a scripted daemon sending: %s", c.args, c.dest, descr)}
		stream := le32(0x0c08)
		for off := 0; off < len(payload); off += 500 {
			stream = append(stream, rp.EncodeFrame(rp.TagData, payload[off:min(off+500, len(payload))])...)
		}
		ln, err := net.Listen("tcp", "127.0.0.1:0")
		if err != nil {
			res.Inconcl = err.Error()
			return res
		}
		defer ln.Close()
		go func() {
			for {
				conn, err := ln.Accept()
				if err != nil {
					return
				}
				go func() {
					defer conn.Close()
					c08HostileDaemon(conn, "@RSYNCD: 27\n", "@RSYNCD: OK\n", stream)
					// keep reading what the client sends (requests) until it closes or a while has passed
					conn.SetReadDeadline(time.Now().Add(2 * time.Second))
					io.Copy(io.Discard, conn)
				}()
			}
		}()
		dir := workDir()
		defer cleanup(dir)
		args := append([]string{}, c.args...)
		args = append(args, fmt.Sprintf("rsync://%s/mod/", ln.Addr()))
		if c.dest {
			args = append(args, "dst/")
		}
		rc, stderr := c01RunCLI(dir, args)
		if os.Getenv("VERIF_DEBUG_CLI") != "" {
			core.Note("C08-CLI rc=%d args=%v output: %s", rc, args, tail(stderr, 1500))
		}
		cnt(&res, "transitions", 1)
		cnt(&res, "states", 1)
		cnt(&res, "traces_validated_against_impl", 1)
		if rc == -2 {
			res.Inconcl = "the command did not end within 60 s (stalls are outside the guarantee)"
			return res
		}
		if strings.Contains(stderr, "panic:") || strings.Contains(stderr, "fatal error:") || strings.Contains(stderr, "SIGSEGV") || rc == 2 {
			res.Fail = core.Fail("crash", fmt.Sprintf("the command died (exit status %d): %s", rc, tail(stderr, 600)), "kind", "panic", "victim", "command", "listing", fmt.Sprint(!c.dest))
			return res
		}
		res.Nontrivial = true
		res.Outcome = fmt.Sprintf("command-survived/status0=%v", rc == 0)
		return res
	}}
}

// c08BuildClientDaemon: the daemon-mode handshake of the library client
// (RunDaemon) against hostile greeting / status lines.
func c08BuildClientDaemon(tier string) core.Source {
	drive.Quiet()
	greetings := []string{"@RSYNCD: 27\n", "@RSYNCD: 26\n", "@RSYNCD: 31.0\n", "@RSYNCD: 99999999999999999999.9\n", "@RSYNCD: abc\n", "@RSYNCD: \n", "garbage\n", "\n", "", strings.Repeat("A", 200000), "@RSYNCD: 27.\x00\n", "@RSYNCD: -27\n"}
	statuses := []string{"@RSYNCD: OK\n", "@ERROR: access denied\n", "@ERROR", "@RSYNCD: AUTHREQD challenge\n", "@RSYNCD: EXIT\n", "motd line 1\nmotd line 2\n@RSYNCD: OK\n", "", strings.Repeat("m", 100000) + "\n@RSYNCD: OK\n", "\x00\x01\x02\n@RSYNCD: OK\n"}
	_, pay := c08ClientPullFields()
	var good []byte
	good = append(good, le32(0x0c08)...)
	for off := 0; off < len(pay.bytes()); off += 500 {
		good = append(good, rp.EncodeFrame(rp.TagData, pay.bytes()[off:min(off+500, len(pay.bytes()))])...)
	}
	tails := [][]byte{good, nil, []byte("\xff\xff\xff\xff\xff\xff\xff\xff"), good[:10]}
	type cs struct{ g, s, t int }
	var cases []cs
	for g := range greetings {
		for s := range statuses {
			for t := range tails {
				cases = append(cases, cs{g, s, t})
			}
		}
	}
	const batch = 8
	n := (len(cases) + batch - 1) / batch
	return core.FuncSource{N: n, F: func(i int) core.Result {
		lo, hi := i*batch, min((i+1)*batch, len(cases))
		res := core.Result{Case: fmt.Sprintf("hostile daemon handshakes %d..%d against RunDaemon", lo, hi-1)}
		errs := 0
		for _, c := range cases[lo:hi] {
			core.Note("C08-CASE daemon-handshake greeting=%q status=%q tail=%d", trunc(greetings[c.g], 20), trunc(statuses[c.s], 20), c.t)
			dir := workDir()
			client, err := rsyncclient.New([]string{"-rlt"}, rsyncclient.DontRestrict(), rsyncclient.WithStderr(io.Discard))
			if err != nil {
				res.Inconcl = err.Error()
				return res
			}
			c2s, s2c := drive.NewPipe(false), drive.NewPipe(false)
			sdone := make(chan struct{})
			go func() {
				defer close(sdone)
				c08HostileDaemon(&drive.RW{Reader: c2s, Writer: s2c}, greetings[c.g], statuses[c.s], tails[c.t])
				s2c.Close()
				io.Copy(io.Discard, c2s)
			}()
			_, cerr := client.RunDaemon(context.Background(), &drive.RW{Reader: s2c, Writer: c2s}, "mod/", []string{filepath.Join(dir, "dst")})
			c2s.Close()
			s2c.Close()
			<-sdone
			cleanup(dir)
			cnt(&res, "transitions", 1)
			if cerr != nil {
				errs++
			}
		}
		cnt(&res, "states", res.Counters["transitions"])
		cnt(&res, "traces_validated_against_impl", res.Counters["transitions"])
		res.Nontrivial = errs > 0
		res.Outcome = fmt.Sprintf("client-survived-handshake/errors>0=%v", errs > 0)
		return res
	}}
}
