package props

import (
	"context"
	"fmt"
	"io"
	"path/filepath"
	"strings"

	"github.com/gokrazy/rsync/rsyncclient"
	"github.com/gokrazy/rsync/rsyncd"
	"github.com/gokrazy/rsync/verifharness/core"
	"github.com/gokrazy/rsync/verifharness/drive"
	"github.com/gokrazy/rsync/verifharness/sched"
	tm "github.com/gokrazy/rsync/verifharness/treemodel"
)

// C04 — destination paths change atomically: old or new content in full at every instant.

// c04TreesB: a regular file replacing a symlink (kept apart from the main
// tree so that its verdict does not mask the other paths).
func c04TreesB() (src, dst tm.Tree) {
	src = tm.Tree{tm.File("was-symlink", genData(famText, 200, 43), 0o600, tm.Past), tm.File("other", genData(famText, 50, 46), 0o644, tm.Past)}
	dst = tm.Tree{tm.L("was-symlink", "somewhere")}
	return
}

// c04TreesC: a symlink whose place is taken by a non-empty directory at the destination. The session may
// end with an error for that entry (rsync cannot make way without --force); whatever it does, nothing but
// complete old or new entries may be left — in particular no temporary symlink.
func c04TreesC() (src, dst tm.Tree) {
	src = tm.Tree{tm.D("releases", 0o755, tm.Past), tm.File("releases/v2", genData(famText, 40, 71), 0o644, tm.Past), tm.L("current", "releases/v2"), tm.File("other", genData(famText, 50, 72), 0o644, tm.Past), tm.L("zlink", "other")}
	dst = tm.Tree{tm.D("current", 0o755, tm.Past), tm.File("current/keep", []byte("in the way"), 0o644, tm.Past), tm.L("zlink", "elsewhere")}
	return
}

func c04Trees() (src, dst tm.Tree) {
	basis := genData(famHash, 2100, 40)
	changed := append([]byte{}, basis...)
	copy(changed[700:], genData(famHash, 400, 41))
	grown := genData(famHash, 700+100, 50)
	newend := genData(famHash, 700+200, 52)
	src = tm.Tree{
		tm.D("sub", 0o755, tm.Past),
		tm.File("new", genData(famText, 60, 42), 0o644, tm.Past),
		tm.File("sub/delta", changed, 0o640, tm.Past),
		tm.L("link", "new-target"),
		tm.L("sub/newlink", "fresh"),
		tm.File("zz-last", genData(famHash, 90, 44), 0o644, tm.Past),
		// files whose leading full blocks are unchanged: appended data, and a shorter, different end
		tm.File("grown", append(append([]byte{}, grown...), genData(famHash, 90, 51)...), 0o644, tm.Past),
		tm.File("newend", append(append([]byte{}, newend[:700]...), genData(famHash, 60, 53)...), 0o644, tm.Past),
		// a directory the transfer itself creates, with new files inside
		tm.D("newdir", 0o755, tm.Past),
		tm.File("newdir/fresh", genData(famHash, 80, 47), 0o644, tm.Past),
		tm.D("newdir/deep", 0o750, tm.Past),
		tm.File("newdir/deep/x", genData(famText, 30, 48), 0o600, tm.Past),
	}
	dst = tm.Tree{
		tm.D("sub", 0o755, tm.Past),
		tm.File("sub/delta", basis, 0o640, tm.Past-9),
		tm.L("link", "old-target"),
		tm.File("zz-last", genData(famHash, 91, 45), 0o644, tm.Past-9),
		tm.File("grown", grown, 0o644, tm.Past-9),
		tm.File("newend", newend, 0o644, tm.Past-9),
	}
	return
}

// c04State describes an allowed state of a listed path.
func c04Allowed(e *tm.Entry, src, dst tm.Tree, p string) (ok bool, which string) {
	s, d := src.Find(p), dst.Find(p)
	match := func(x *tm.Entry) bool {
		if x == nil {
			return e == nil
		}
		if e == nil || e.Type != x.Type {
			return false
		}
		switch x.Type {
		case tm.Reg:
			return e.Sum == tm.SumOf(x.Data)
		case tm.Link:
			return e.Target == x.Target
		}
		return true
	}
	if match(d) {
		return true, "old"
	}
	if match(s) {
		return true, "new"
	}
	return false, ""
}

// c04Invariant checks the destination directory.
func c04Invariant(dstDir string, src, dst tm.Tree) string {
	snap, err := tm.Snapshot(dstDir, false)
	if err != nil {
		return ""
	}
	cur := map[string]*tm.Entry{}
	for i := range snap {
		cur[snap[i].Path] = &snap[i]
	}
	listed := map[string]bool{}
	for _, s := range src {
		listed[s.Path] = true
		if ok, _ := c04Allowed(cur[s.Path], src, dst, s.Path); !ok {
			e := cur[s.Path]
			desc := "absent"
			if e != nil {
				desc = e.Line(tm.Fields{})
			}
			return fmt.Sprintf("path %q holds neither its complete previous content nor the complete new content: %s", s.Path, desc)
		}
	}
	for _, e := range snap {
		if listed[e.Path] || dst.Find(e.Path) != nil {
			continue
		}
		top := strings.SplitN(e.Path, "/", 2)[0]
		if !tm.IsTempName(top) {
			return fmt.Sprintf("unexpected entry %q that is neither listed nor a separately named temporary file", e.Path)
		}
	}
	return ""
}

type c04Scenario struct {
	arr      string
	c2s, s2c int
	bound    int
	faults   bool
	chunking bool
	treeB    bool
	treeC    bool // a non-empty directory in the way of a symlink: the session may fail
	shard    int
	nshards  int
}

func c04Run(s c04Scenario) core.Result {
	res := core.Result{Case: fmt.Sprintf("arr=%s capacity c2s=%s s2c=%s deviations<=%d connection-break-at-every-point=%v chunking=%v", s.arr, capName(s.c2s), capName(s.s2c), s.bound, s.faults, s.chunking)}
	src, dst := c04Trees()
	if s.treeB {
		src, dst = c04TreesB()
		res.Case += " tree=file-replaces-symlink"
	}
	if s.treeC {
		src, dst = c04TreesC()
		res.Case += " tree=directory-in-the-way-of-symlink"
	}
	var curDst string
	var invChecks int64
	sc := &sched.Scenario{Name: res.Case, CapC2S: s.c2s, CapS2C: s.s2c, Opt: sched.Options{Faults: s.faults, Chunking: s.chunking},
		Start: func(w *sched.World) func(bool) string {
			dir := workDir()
			src.Materialise(filepath.Join(dir, "src"))
			d := filepath.Join(dir, "dst")
			dst.Materialise(d)
			curDst = d
			var cerr, serr error
			ctx := context.Background()
			srcArg := filepath.Join(dir, "src") + "/"
			copts := []rsyncclient.Option{rsyncclient.DontRestrict(), rsyncclient.WithStderr(io.Discard)}
			switch s.arr {
			case drive.LibPull:
				client, _ := rsyncclient.New([]string{"-rlt"}, copts...)
				srv, _ := rsyncd.NewServer(nil, rsyncd.DontRestrict(), rsyncd.WithStderr(io.Discard), rsyncd.WithLogger(nullLogger{}))
				sargs := client.ServerCommandOptions(srcArg)
				w.Go(func() { _, cerr = client.Run(ctx, w.Client(), []string{d}); w.Client().Close() })
				w.Go(func() {
					serr = srv.HandleConnArgs(ctx, rsyncd.NewConnection(w.Server(), w.Server(), "<lib>"), nil, sargs)
					w.Server().Close()
				})
			case drive.DaemonPull:
				client, _ := rsyncclient.New([]string{"-rlt"}, copts...)
				srv, _ := rsyncd.NewServer([]rsyncd.Module{{Name: "m", Path: filepath.Join(dir, "src")}}, rsyncd.DontRestrict(), rsyncd.WithStderr(io.Discard), rsyncd.WithLogger(nullLogger{}))
				w.Go(func() { _, cerr = client.RunDaemon(ctx, w.Client(), "m/", []string{d}); w.Client().Close() })
				w.Go(func() {
					serr = srv.HandleDaemonConn(ctx, rsyncd.NewConnection(w.Server(), w.Server(), "127.0.0.1:4"))
					w.Server().Close()
				})
			case drive.DaemonPush:
				client, _ := rsyncclient.New([]string{"-rlt"}, append(copts, rsyncclient.WithSender())...)
				srv, _ := rsyncd.NewServer([]rsyncd.Module{{Name: "m", Path: d, Writable: true}}, rsyncd.DontRestrict(), rsyncd.WithStderr(io.Discard), rsyncd.WithLogger(nullLogger{}))
				w.Go(func() { _, cerr = client.RunDaemon(ctx, w.Client(), "m/", []string{srcArg}); w.Client().Close() })
				w.Go(func() {
					serr = srv.HandleDaemonConn(ctx, rsyncd.NewConnection(w.Server(), w.Server(), "127.0.0.1:4"))
					w.Server().Close()
				})
			}
			return func(finished bool) string {
				after, _ := tm.Snapshot(d, false)
				clean, temps := after.WithoutTemps()
				inv := c04Invariant(d, src, dst)
				complete := len(tm.Diff(src, clean, tm.Fields{})) == 0
				out := fmt.Sprintf("finished=%v client_ok=%v server_ok=%v temps=%d complete=%v final_invariant=%q", finished, cerr == nil, serr == nil, len(temps), complete, inv)
				if len(temps) > 0 {
					out += fmt.Sprintf(" temp_names=%q cerr=%v serr=%v", temps.Canon(tm.Fields{}), cerr, serr)
				}
				cleanup(dir)
				return out
			}
		},
		Invariant: func(w *sched.World, point int) string {
			invChecks++
			return c04Invariant(curDst, src, dst)
		},
	}
	broken := 0
	if s.nshards == 0 {
		s.nshards = 1
	}
	res.Case += fmt.Sprintf(" shard=%d/%d", s.shard, s.nshards)
	st := sched.ExploreShard(core.T, sc, s.bound, 40000, s.shard, s.nshards, func(x *sched.Exec) string {
		wasBroken := false
		for _, d := range x.Descr {
			if d == "break" {
				wasBroken = true
			}
		}
		if !strings.Contains(x.Outcome, `final_invariant=""`) {
			return "after the session ended: " + x.Outcome
		}
		if !strings.Contains(x.Outcome, "temps=0") {
			return "temporary files remain after the session returned and its connection was closed: " + x.Outcome
		}
		if wasBroken {
			broken++
			// a broken connection must surface as an error on the receiving side unless everything had been transferred
			if strings.Contains(x.Outcome, "client_ok=true server_ok=true") && !strings.Contains(x.Outcome, "complete=true") {
				return "connection was cut but both ends report success with an incomplete destination: " + x.Outcome
			}
			return ""
		}
		if s.treeC {
			return "" // this session may legitimately end with an error; invariant and temp files were checked above
		}
		if !strings.Contains(x.Outcome, "client_ok=true server_ok=true") || !strings.Contains(x.Outcome, "complete=true") {
			return "undisturbed session did not complete: " + x.Outcome
		}
		return ""
	})
	cnt(&res, "executions", int64(st.Executions))
	cnt(&res, "transitions", st.Points)
	cnt(&res, "states", invChecks)
	cnt(&res, "traces_validated_against_impl", int64(st.Executions))
	cnt(&res, "connection_breaks", int64(broken))
	if st.Capped {
		cnt(&res, "capped_scenarios", 1)
	}
	if st.FirstBad != nil {
		sym := "not_atomic"
		switch {
		case st.FirstBad.Deadlock:
			sym = "deadlock"
		case strings.Contains(st.FirstBadWhy, "temporary files remain"):
			sym = "temp_files_remain"
		case strings.Contains(st.FirstBadWhy, "connection was cut"):
			sym = "cut_connection_reported_success"
		case strings.Contains(st.FirstBadWhy, "undisturbed"):
			sym = "session_failed"
		}
		n := len(st.FirstBad.Descr)
		res.Fail = core.Fail(sym, fmt.Sprintf("%s | choices=%s | last steps %v", st.FirstBadWhy, compact(st.FirstBad.Choices), st.FirstBad.Descr[max(0, n-6):]), "arr", s.arr, "tree", map[bool]string{false: "main", true: "file-replaces-symlink"}[s.treeB], "treeC", fmt.Sprint(s.treeC))
		return res
	}
	res.Nontrivial = broken > 0 || invChecks > 100
	res.Outcome = fmt.Sprintf("ok/breaks>0=%v", broken > 0)
	return res
}

func c04BuildScenarios(tier string) core.Source {
	drive.Quiet()
	var cases []c04Scenario
	for _, arr := range []string{drive.LibPull, drive.DaemonPull, drive.DaemonPush} {
		// invariant at every scheduler point, connection cut at every point of the default schedule
		for k := 0; k < 3; k++ {
			// partial deliveries (1-byte / half transfers) are explored for the library pull and the upload;
			// the daemon pull differs from the library pull only in its handshake
			cases = append(cases, c04Scenario{arr: arr, c2s: sched.Inf, s2c: sched.Inf, bound: 1, faults: true, chunking: arr != drive.DaemonPull || tier == "thorough", shard: k, nshards: 3})
		}
		// small capacity: the receiver is frozen every 11 bytes (thorough: 7 and 1), the connection is cut at each of those offsets
		small := 11
		if tier == "thorough" {
			small = 7
		}
		for k := 0; k < 12; k++ {
			cases = append(cases, c04Scenario{arr: arr, c2s: small, s2c: small, bound: 1, faults: true, shard: k, nshards: 12})
		}
		cases = append(cases, c04Scenario{arr: arr, c2s: 0, s2c: 0, bound: 1, faults: true})
		cases = append(cases, c04Scenario{arr: arr, c2s: sched.Inf, s2c: sched.Inf, bound: 1, faults: true, treeB: true})
		cases = append(cases, c04Scenario{arr: arr, c2s: sched.Inf, s2c: sched.Inf, bound: 1, faults: true, treeC: true})
		if tier == "thorough" {
			cases = append(cases, c04Scenario{arr: arr, c2s: 1, s2c: 1, bound: 1, faults: true})
			cases = append(cases, c04Scenario{arr: arr, c2s: sched.Inf, s2c: sched.Inf, bound: 2, faults: true, chunking: true})
			cases = append(cases, c04Scenario{arr: arr, c2s: 64, s2c: 64, bound: 2, faults: true})
		}
	}
	return core.FuncSource{N: len(cases), F: func(i int) core.Result { return c04Run(cases[i]) }}
}

func init() {
	core.Register(&core.Prop{
		ID:    "C04",
		Level: "model_checking",
		Rule: "multi-file sessions (new file, delta-replaced file, file with appended data, file with a shorter different end, file replacing a symlink, symlink whose place is taken by a non-empty directory, replaced symlink, new symlink, replaced file) as library pull, daemon pull and daemon upload under the controlled scheduler: the state invariant is evaluated at every scheduling point (receiver frozen at a transport gate; with capacity 11 that is every 11 bytes, thorough: every 7 bytes and every byte) of every execution with <=1 (thorough <=2) deviations, and the connection is cut at every scheduling point (one extra execution per point). " +
			"invariant: every listed path holds its complete previous content (or is still absent) or the complete new content, link targets are old or new, anything else on disk has a renameio temp name; after a cut the session must not report success with an incomplete destination, and once both ends returned and the connection is closed no temp file remains; inotify: the kernel event trace of the destination directories during a free-running session in all 5 arrangements, plain and with --delete (listed names sorting between a directory and its contents, extraneous entries), shows no in-place write, delete, move-away or create-then-fill on any listed name. states = invariant evaluations, transitions = transport operations",
		Assum: []string{"instants between two transport operations of the receiver are covered by the inotify part: the kernel's event log of the destination directories must show only rename-into-place events on listed names", "SIGKILL at an arbitrary instant is modelled by freezing the receiver at every transport gate"},
		Parts: func(tier string) []core.Part {
			return []core.Part{{Name: "scenarios", Build: c04BuildScenarios}, {Name: "inotify", Build: c04BuildInotify}}
		},
	})
}
