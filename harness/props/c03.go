package props

import (
	"bytes"
	"encoding/binary"
	"fmt"
	"os"
	"path/filepath"
	"time"

	"github.com/gokrazy/rsync/rsyncd"
	"github.com/gokrazy/rsync/verifharness/core"
	"github.com/gokrazy/rsync/verifharness/drive"
	"github.com/gokrazy/rsync/verifharness/peer"
	rp "github.com/gokrazy/rsync/verifharness/refproto"
	tm "github.com/gokrazy/rsync/verifharness/treemodel"
)

// C03 — only data that passes the whole-file checksum ever replaces a destination file.

const c03Seed = 0x0c03aaaa

type c03Shape struct {
	name   string
	basis  []byte // nil: destination absent
	target []byte
	toks   []rp.Token
	head   rp.SumHead
	// announced, if non-zero: the length the file list announces (default: the target's length)
	announced int64
}

func c03Shapes() []c03Shape {
	blk := func(i int) []byte { return genData(famHash, 700, uint32(1000+i)) }
	basis := append(append(append([]byte{}, blk(0)...), blk(1)...), blk(2)...)
	whole := genData(famText, 40, 5)
	lit := genData(famHash, 700, 4444)
	mixed := append(append(append([]byte{}, blk(0)...), lit...), blk(2)...)
	h3 := rp.SumHead{Count: 3, BLen: 700, S2Len: 16, Rem: 0}
	sblk := func(i int) []byte { return genData(famHash, 64, uint32(2000+i)) }
	sbasis := append(append(append([]byte{}, sblk(0)...), sblk(1)...), sblk(2)...)
	slit := genData(famHash, 64, 5555)
	smixed := append(append(append([]byte{}, sblk(0)...), slit...), sblk(2)...)
	return []c03Shape{
		{"whole-file", nil, whole, []rp.Token{rp.Lit(whole)}, rp.SumHead{Count: 0, BLen: 700, S2Len: 16, Rem: 0}, 0},
		{"pure-delta", basis, basis, []rp.Token{rp.Ref(0), rp.Ref(1), rp.Ref(2)}, h3, 0},
		{"mixed", basis, mixed, []rp.Token{rp.Ref(0), rp.Lit(lit), rp.Ref(2)}, h3, 0},
		// other header echoes a sender may produce: tridge rsync echoes the generator's header verbatim
		// (all zero for a file without basis); a peer may announce any strong-checksum length
		{"whole-file/zero-head", nil, whole, []rp.Token{rp.Lit(whole)}, rp.SumHead{}, 0},
		{"whole-file/s2len-2", nil, whole, []rp.Token{rp.Lit(whole)}, rp.SumHead{Count: 0, BLen: 700, S2Len: 2, Rem: 0}, 0},
		{"mixed-small/s2len-0", sbasis, smixed, []rp.Token{rp.Ref(0), rp.Lit(slit), rp.Ref(2)}, rp.SumHead{Count: 3, BLen: 64, S2Len: 0, Rem: 0}, 0},
		{"mixed-small/s2len-15", sbasis, smixed, []rp.Token{rp.Ref(0), rp.Lit(slit), rp.Ref(2)}, rp.SumHead{Count: 3, BLen: 64, S2Len: 15, Rem: 0}, 0},
	}
}

// c03Session runs one session in which the scripted sender answers the
// request for "f" with raw bytes. other: an unrelated second file "g" that is
// transferred correctly afterwards (nil: single-file session).
// It returns whether the real receiver side reported success and the final
// bytes at the destination path ("" when absent).
func c03Session(role int, sh c03Shape, mk func(seed int32) []byte, pre func(dest string), onReq func(dest string)) (ok bool, after []byte, present bool, detail string) {
	dir := workDir()
	defer cleanup(dir)
	dest := filepath.Join(dir, "dst")
	os.MkdirAll(dest, 0o755)
	if sh.basis != nil {
		os.WriteFile(filepath.Join(dest, "f"), sh.basis, 0o644)
		setMtime(filepath.Join(dest, "f"), tm.Past-777, 0)
	}
	if pre != nil {
		pre(dest)
	}
	flen := int64(len(sh.target))
	if sh.announced != 0 {
		flen = sh.announced
		if flen < 0 {
			flen = 0
		}
	}
	list := &rp.FList{Entries: []rp.FEntry{{Name: []byte("f"), Len: flen, Mtime: tm.Past, Mode: rp.SIFREG | 0o644}}}
	script := &peer.SenderScript{List: list, Seed: c03Seed, HalfClose: true}
	script.Reply = func(req peer.Request) *peer.Reply {
		if onReq != nil {
			onReq(dest)
		}
		// the daemon chooses the seed: build the reply with the session's seed
		return &peer.Reply{Raw: mk(script.Seed)}
	}
	c03Restamped = ""
	var mtBefore int64
	if st, err := os.Lstat(filepath.Join(dest, "f")); err == nil {
		mtBefore = st.ModTime().UnixNano()
	}
	defer func() {
		// a destination file that was not replaced must not be re-stamped with the new version's time either:
		// the update rule (C12) would take the stale content for up to date from then on
		if st, err := os.Lstat(filepath.Join(dest, "f")); err == nil && onReq == nil && mtBefore != 0 && !ok && st.ModTime().UnixNano() != mtBefore {
			c03Restamped = fmt.Sprintf("modification time of the kept file changed from %d to %d", mtBefore, st.ModTime().UnixNano())
		}
	}()
	var e1, e2 error
	if role == 0 {
		e1, _, _, e2, _ = peer.ClientVsScriptedServer([]string{"-rt"}, dest, script)
	} else {
		e1, _, _, e2, _ = peer.DaemonVsScriptedClient([]rsyncd.Module{{Name: "w", Path: dest, Writable: true}}, "w", []string{"--server", "-rt", ".", "w/"}, script, false)
	}
	b, err := os.ReadFile(filepath.Join(dest, "f"))
	return e1 == nil, b, err == nil, fmt.Sprintf("real=%v scripted=%v", e1, e2)
}

func c03Raw(idx int32, sh c03Shape, toks []rp.Token, trailer [16]byte) []byte {
	var w rp.W
	w.Int(idx)
	sh.head.Write(&w)
	rp.WriteTokens(&w, toks)
	w.Buf(trailer[:])
	return w.Bytes()
}

// c03Judge applies the property's outcome rule.
// c03Restamped is set by c03Session (worker-local; sessions run one after another).
var c03Restamped string

func c03Judge(ok bool, after []byte, present bool, sh c03Shape, prior []byte, priorPresent bool, what, detail string, feats ...string) *core.Failure {
	if !ok && c03Restamped != "" && present && bytes.Equal(after, prior) {
		return core.Fail("rejected_file_restamped", fmt.Sprintf("%s: the session failed and the previous content was kept, but %s [%s]", what, c03Restamped, detail), feats...)
	}
	if ok {
		if present && bytes.Equal(after, sh.target) {
			return nil
		}
		return core.Fail("damaged_stream_reported_success", fmt.Sprintf("%s: session succeeded but destination holds other bytes than the source (present=%v, %d bytes) [%s]", what, present, len(after), detail), feats...)
	}
	if present != priorPresent || !bytes.Equal(after, prior) {
		// error, but the file may legitimately have been completed correctly before a later error
		if present && bytes.Equal(after, sh.target) {
			return nil
		}
		return core.Fail("destination_changed_on_error", fmt.Sprintf("%s: session failed and the destination path no longer holds its previous content (present %v->%v, %d bytes) [%s]", what, priorPresent, present, len(after), detail), feats...)
	}
	return nil
}

func c03BuildFlips(tier string) core.Source {
	drive.Quiet()
	shapes := c03Shapes()
	type cs struct {
		role, shape int
		lo, hi      int // bit range
	}
	var cases []cs
	const chunk = 64
	for role := 0; role < 2; role++ {
		for si, sh := range shapes {
			raw := c03Raw(0, sh, sh.toks, rp.FileSum(c03Seed, sh.target))
			for lo := 0; lo < len(raw)*8; lo += chunk {
				cases = append(cases, cs{role, si, lo, min(lo+chunk, len(raw)*8)})
			}
		}
	}
	return core.FuncSource{N: len(cases), F: func(i int) core.Result {
		c := cases[i]
		sh := shapes[c.shape]
		res := core.Result{Case: fmt.Sprintf("role=%s shape=%s single-bit flips at bit %d..%d of the file's data segment", []string{"client", "daemon"}[c.role], sh.name, c.lo, c.hi-1)}
		rejected, accepted := 0, 0
		for bit := c.lo; bit < c.hi; bit++ {
			mk := func(seed int32) []byte {
				raw := c03Raw(0, sh, sh.toks, rp.FileSum(seed, sh.target))
				raw[bit/8] ^= 1 << (bit % 8)
				return raw
			}
			if c03DeclaresHuge(mk(0)) {
				// a flip that turns a literal length into >= 16 MiB: the receiver allocates what the peer declares
				// (declared huge sizes are a resource question, not one of publishing wrong data)
				cnt(&res, "flips_skipped_declared_huge", 1)
				continue
			}
			t0 := time.Now()
			ok, after, present, detail := c03Session(c.role, sh, mk, nil, nil)
			if d := time.Since(t0); d > 2*time.Second {
				core.Note("C03 slow session (%v): role=%d shape=%s bit %d: %s", d.Round(time.Millisecond), c.role, sh.name, bit, detail)
			}
			cnt(&res, "transitions", 1)
			region := c03Region(bit/8, sh)
			if f := c03Judge(ok, after, present, sh, sh.basis, sh.basis != nil, fmt.Sprintf("bit %d (byte %d, %s)", bit, bit/8, region), detail, "region", region, "role", fmt.Sprint(c.role), "shape", sh.name); f != nil {
				res.Fail = f
				return res
			}
			if ok {
				accepted++
			} else {
				rejected++
			}
		}
		cnt(&res, "states", res.Counters["transitions"])
		cnt(&res, "traces_validated_against_impl", res.Counters["transitions"])
		cnt(&res, "flips_rejected", int64(rejected))
		res.Nontrivial = rejected > 0
		res.Outcome = fmt.Sprintf("rejected>0=%v/accepted>0=%v", rejected > 0, accepted > 0)
		return res
	}}
}

// c03DeclaresHuge walks the token words of a data segment (index, 4 header
// words, tokens) and reports a literal token of 16 MiB or more.
func c03DeclaresHuge(raw []byte) bool {
	for pos := 20; pos+4 <= len(raw); {
		v := int32(binary.LittleEndian.Uint32(raw[pos:]))
		switch {
		case v == 0:
			return false
		case v > 0:
			if v >= 1<<24 {
				return true
			}
			pos += 4 + int(v)
		default:
			pos += 4
		}
	}
	return false
}

func c03Region(off int, sh c03Shape) string {
	switch {
	case off < 4:
		return "index"
	case off < 20:
		return "head"
	}
	total := len(c03Raw(0, sh, sh.toks, [16]byte{}))
	if off >= total-16 {
		return "trailer"
	}
	if off >= total-20 {
		return "endmarker"
	}
	return "tokens"
}

// c03BuildControl: the undamaged stream of every shape must be accepted (so
// that rejections above are due to the damage).
func c03BuildControl(tier string) core.Source {
	drive.Quiet()
	shapes := c03Shapes()
	return core.FuncSource{N: len(shapes) * 2, F: func(i int) core.Result {
		role, sh := i%2, shapes[i/2]
		res := core.Result{Case: fmt.Sprintf("control: undamaged %s stream, role %d", sh.name, role)}
		ok, after, present, detail := c03Session(role, sh, func(seed int32) []byte { return c03Raw(0, sh, sh.toks, rp.FileSum(seed, sh.target)) }, nil, nil)
		cnt(&res, "transitions", 1)
		cnt(&res, "states", 1)
		if !ok || !present || !bytes.Equal(after, sh.target) {
			res.Fail = core.Fail("undamaged_stream_rejected", detail, "shape", sh.name)
		}
		res.Outcome = "control-ok"
		res.Nontrivial = true
		return res
	}}
}

// c03BuildLength: the stream is honest (its trailer covers exactly the bytes it denotes) but the file list
// announced another length — the source shrank or grew between listing and sending. What gets published,
// if anything, must be exactly the bytes the sender read: nothing the receiver prepared for the announced
// length (reserved space, padding, leftovers) may become part of the file.
func c03BuildLength(tier string) core.Source {
	drive.Quiet()
	type cs struct {
		announced, sent int
		basis           bool
		role            int
	}
	var cases []cs
	for _, p := range [][2]int{{40000, 0}, {40000, 1}, {40000, 32768}, {40000, 39999}, {200000, 120000}, {32768, 100}, {1 << 20, 70000}, {40000, 40001}, {100, 40000}, {-1, 5000}, {300000, 300000}} {
		for _, basis := range []bool{false, true} {
			for role := 0; role < 2; role++ {
				cases = append(cases, cs{p[0], p[1], basis, role})
			}
		}
	}
	return core.FuncSource{N: len(cases), F: func(i int) core.Result {
		c := cases[i]
		target := genData(famHash, c.sent, uint32(300+i))
		sh := c03Shape{name: "length", target: target, toks: []rp.Token{rp.Lit(target)}, head: rp.SumHead{Count: 0, BLen: 700, S2Len: 16}, announced: int64(c.announced)}
		if c.sent == 0 {
			sh.toks = nil
		}
		var prior []byte
		if c.basis {
			prior = genData(famText, 5000, uint32(900+i))
			sh.basis = prior
			// with a basis the generator sends sums; the honest sender answers with literals only (nothing matches)
			sh.head = rp.LegalHead(len(prior), 700, 16)
		}
		res := core.Result{Case: fmt.Sprintf("file list announces %d bytes, the honest stream carries %d (basis present: %v, role %d)", c.announced, c.sent, c.basis, c.role)}
		ok, after, present, detail := c03Session(c.role, sh, func(seed int32) []byte { return c03Raw(0, sh, sh.toks, rp.FileSum(seed, sh.target)) }, nil, nil)
		cnt(&res, "transitions", 1)
		cnt(&res, "states", 1)
		cnt(&res, "traces_validated_against_impl", 1)
		if f := c03Judge(ok, after, present, sh, prior, c.basis, res.Case, detail, "shape", "length", "role", fmt.Sprint(c.role)); f != nil {
			res.Fail = f
			return res
		}
		res.Nontrivial = true
		res.Outcome = fmt.Sprintf("ok/accepted=%v", ok)
		return res
	}}
}

// c03BuildTokenFaults: substitutions, transpositions, duplications and
// truncations of a <=5-token stream sent with the TRUE trailer of the source.
func c03BuildTokenFaults(tier string) core.Source {
	drive.Quiet()
	blk := func(i int) []byte { return genData(famHash, 700, uint32(1000+i)) }
	var basis []byte
	for i := 0; i < 4; i++ {
		basis = append(basis, blk(i)...)
	}
	litA, litB := genData(famHash, 300, 71), genData(famHash, 300, 72)
	h := rp.SumHead{Count: 4, BLen: 700, S2Len: 16, Rem: 0}
	streams := [][]rp.Token{
		{rp.Ref(0), rp.Ref(1), rp.Ref(2), rp.Ref(3)},
		{rp.Ref(0), rp.Lit(litA), rp.Ref(2), rp.Lit(litB), rp.Ref(3)},
		{rp.Lit(litA), rp.Ref(1), rp.Ref(1), rp.Lit(litB)},
	}
	type fault struct {
		stream int
		desc   string
		toks   []rp.Token
	}
	var faults []fault
	for si, st := range streams {
		// substitutions of a reference by every other valid one
		for p, t := range st {
			if t.IsLit() {
				// literal truncated by one byte / one byte changed / swapped with the other literal
				l2 := append([]byte{}, t.Lit...)
				l2[len(l2)/2] ^= 0x20
				f1 := append([]rp.Token{}, st...)
				f1[p] = rp.Lit(l2)
				faults = append(faults, fault{si, fmt.Sprintf("literal %d: byte changed", p), f1})
				f2 := append([]rp.Token{}, st...)
				f2[p] = rp.Lit(t.Lit[:len(t.Lit)-1])
				faults = append(faults, fault{si, fmt.Sprintf("literal %d: shortened", p), f2})
				continue
			}
			for r := int32(0); r < h.Count; r++ {
				if r == t.Ref {
					continue
				}
				f := append([]rp.Token{}, st...)
				f[p] = rp.Ref(r)
				faults = append(faults, fault{si, fmt.Sprintf("token %d: ref %d -> %d", p, t.Ref, r), f})
			}
		}
		for p := 0; p+1 < len(st); p++ { // transpositions
			f := append([]rp.Token{}, st...)
			f[p], f[p+1] = f[p+1], f[p]
			faults = append(faults, fault{si, fmt.Sprintf("tokens %d,%d transposed", p, p+1), f})
		}
		for p := range st { // duplications and deletions
			f := append(append(append([]rp.Token{}, st[:p+1]...), st[p]), st[p+1:]...)
			faults = append(faults, fault{si, fmt.Sprintf("token %d duplicated", p), f})
			g := append(append([]rp.Token{}, st[:p]...), st[p+1:]...)
			faults = append(faults, fault{si, fmt.Sprintf("token %d dropped", p), g})
		}
	}
	return core.FuncSource{N: len(faults) * 2, F: func(i int) core.Result {
		role, fl := i%2, faults[i/2]
		st := streams[fl.stream]
		target, _ := rp.Denote(st, basis, h)
		sh := c03Shape{name: "tokens", basis: basis, target: target, toks: st, head: h}
		res := core.Result{Case: fmt.Sprintf("role=%d stream=%s fault=%s (true trailer)", role, tokStr(st), fl.desc)}
		den, _ := rp.Denote(fl.toks, basis, h)
		ok, after, present, detail := c03Session(role, sh, func(seed int32) []byte { return c03Raw(0, sh, fl.toks, rp.FileSum(seed, target)) }, nil, nil)
		cnt(&res, "transitions", 1)
		cnt(&res, "states", 1)
		cnt(&res, "traces_validated_against_impl", 1)
		if f := c03Judge(ok, after, present, sh, basis, true, fl.desc, detail, "role", fmt.Sprint(role), "shape", "tokenfault"); f != nil {
			res.Fail = f
			return res
		}
		same := bytes.Equal(den, target)
		if same && !ok {
			res.Fail = core.Fail("equivalent_stream_rejected", fl.desc+": "+detail)
			return res
		}
		res.Nontrivial = !same
		res.Outcome = fmt.Sprintf("changed=%v/ok=%v", !same, ok)
		return res
	}}
}

// c03BuildBasisEdit: the basis file is modified by a third party after the
// generator sent its checksums and before the receiver reconstructs.
func c03BuildBasisEdit(tier string) core.Source {
	drive.Quiet()
	shapes := c03Shapes()[1:3] // the two shapes with a 3x700-byte basis
	type ed struct {
		name string
		f    func(b []byte) []byte
	}
	edits := []ed{
		{"flip byte in block 0", func(b []byte) []byte { c := append([]byte{}, b...); c[10] ^= 1; return c }},
		{"flip byte in block 2", func(b []byte) []byte { c := append([]byte{}, b...); c[1500] ^= 1; return c }},
		{"flip byte in unreferenced block 1", func(b []byte) []byte { c := append([]byte{}, b...); c[800] ^= 1; return c }},
		{"truncate to 1000 bytes", func(b []byte) []byte { return append([]byte{}, b[:1000]...) }},
		{"replace by zeros", func(b []byte) []byte { return make([]byte, len(b)) }},
		{"swap blocks 0 and 2", func(b []byte) []byte {
			c := append([]byte{}, b...)
			copy(c[0:700], b[1400:2100])
			copy(c[1400:2100], b[0:700])
			return c
		}},
	}
	type cs struct{ role, shape, edit int }
	var cases []cs
	for role := 0; role < 2; role++ {
		for s := range shapes {
			for e := range edits {
				cases = append(cases, cs{role, s, e})
			}
		}
	}
	return core.FuncSource{N: len(cases), F: func(i int) core.Result {
		c := cases[i]
		sh := shapes[c.shape]
		e := edits[c.edit]
		res := core.Result{Case: fmt.Sprintf("role=%d shape=%s basis edit after signature generation: %s", c.role, sh.name, e.name)}
		edited := e.f(sh.basis)
		ok, after, present, detail := c03Session(c.role, sh, func(seed int32) []byte { return c03Raw(0, sh, sh.toks, rp.FileSum(seed, sh.target)) }, nil, func(dest string) {
			// overwrite in place (same inode is not required by the property)
			os.WriteFile(filepath.Join(dest, "f"), edited, 0o644)
		})
		cnt(&res, "transitions", 1)
		cnt(&res, "states", 1)
		cnt(&res, "traces_validated_against_impl", 1)
		if f := c03Judge(ok, after, present, sh, edited, true, e.name, detail, "role", fmt.Sprint(c.role), "shape", "basisedit"); f != nil {
			res.Fail = f
			return res
		}
		den, derr := rp.Denote(sh.toks, edited, sh.head)
		harmless := derr == nil && bytes.Equal(den, sh.target)
		res.Nontrivial = !harmless
		res.Outcome = fmt.Sprintf("harmless=%v/ok=%v", harmless, ok)
		return res
	}}
}

func init() {
	core.Register(&core.Prop{
		ID:    "C03",
		Level: "model_checking",
		Rule: "flips: every single-bit flip at every bit position of the file's data segment (index word, echoed head, every token word, every literal byte, end marker, 16-byte trailer) for seven file shapes (whole-file, pure-delta, mixed; whole-file with the all-zero header tridge echoes and with strong length 2; 64-byte-block delta with strong length 0 and 15) in both receiver roles (flips that turn a literal length into >= 16 MiB are skipped and counted), each as one real session fed by the scripted reference sender; tokenfaults: every substitution of a block reference by another valid one, changed/shortened literals, all transpositions, duplications and deletions of 3 streams of <=5 tokens sent with the true trailer; basisedit: third-party modification of the basis between signature generation and reconstruction; control: undamaged streams are accepted; length: honest streams whose length differs from the one the file list announced (11 pairs incl. 0, 1, 32768, one byte short/long, with and without basis, both roles): what is published must be exactly the bytes the sender read. " +
			"oracle: (error, previous content kept and the kept file not re-stamped with the new version's time) or (success and destination == source); states/transitions = sessions; non-trivial = case whose damage was rejected",
		Assum: []string{"MD4 collisions are not searched for", "the scripted sender half-closes its direction after its last byte so a receiver waiting for announced-but-missing bytes sees EOF"},
		Parts: func(tier string) []core.Part {
			return []core.Part{
				{Name: "control", Build: c03BuildControl},
				{Name: "length", Build: c03BuildLength},
				{Name: "flips", Build: c03BuildFlips},
				{Name: "tokenfaults", Build: c03BuildTokenFaults},
				{Name: "basisedit", Build: c03BuildBasisEdit},
				{Name: "forgedtrailer", Build: c03BuildForgedTrailer},
			}
		},
	})
}

// c03BuildForgedTrailer: the stream denotes other bytes X' than the source X
// and carries a trailer that agrees with MD4(seed||X') in k < 16 bytes (a
// prefix, a suffix or every other byte) and with the true trailer elsewhere —
// a partial MD4 collision, modelled rather than searched for. Only a
// full-length comparison rejects all of them.
func c03BuildForgedTrailer(tier string) core.Source {
	drive.Quiet()
	shapes := c03Shapes()
	type cs struct {
		role, shape, k, mode int
	}
	var cases []cs
	for role := 0; role < 2; role++ {
		for s := range shapes {
			for _, k := range []int{1, 2, 4, 8, 12, 15} {
				for mode := 0; mode < 3; mode++ {
					cases = append(cases, cs{role, s, k, mode})
				}
			}
		}
	}
	return core.FuncSource{N: len(cases), F: func(i int) core.Result {
		c := cases[i]
		sh := shapes[c.shape]
		res := core.Result{Case: fmt.Sprintf("role=%d shape=%s damaged data + trailer agreeing with the damaged data's checksum in %d bytes (mode %d: prefix/suffix/scattered)", c.role, sh.name, c.k, c.mode)}
		// damage: change one literal byte, or substitute a reference
		toks := append([]rp.Token{}, sh.toks...)
		damaged := false
		for j, t := range toks {
			if t.IsLit() {
				l := append([]byte{}, t.Lit...)
				l[len(l)/2] ^= 0x40
				toks[j] = rp.Lit(l)
				damaged = true
				break
			}
		}
		if !damaged {
			toks[0] = rp.Ref(1)
		}
		den, _ := rp.Denote(toks, sh.basis, sh.head)
		mk := func(seed int32) []byte {
			tr := rp.FileSum(seed, sh.target)
			fake := rp.FileSum(seed, den)
			for b := 0; b < 16; b++ {
				use := false
				switch c.mode {
				case 0:
					use = b < c.k
				case 1:
					use = b >= 16-c.k
				case 2:
					use = (b*7)%16 < c.k
				}
				if use {
					tr[b] = fake[b]
				}
			}
			return c03Raw(0, sh, toks, tr)
		}
		ok, after, present, detail := c03Session(c.role, sh, mk, nil, nil)
		cnt(&res, "transitions", 1)
		cnt(&res, "states", 1)
		cnt(&res, "traces_validated_against_impl", 1)
		if f := c03Judge(ok, after, present, sh, sh.basis, sh.basis != nil, "forged trailer", detail, "role", fmt.Sprint(c.role), "shape", "forgedtrailer", "agree", fmt.Sprint(c.k)); f != nil {
			res.Fail = f
			return res
		}
		res.Nontrivial = true
		res.Outcome = fmt.Sprintf("ok=%v", ok)
		return res
	}}
}
