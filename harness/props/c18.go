package props

import (
	"context"
	"fmt"
	"io"
	"io/fs"
	"os"
	"path"
	"path/filepath"
	"strings"
	"sync"

	"github.com/gokrazy/rsync/rsyncclient"
	"github.com/gokrazy/rsync/rsynccmd"
	"github.com/gokrazy/rsync/rsyncd"
	"github.com/gokrazy/rsync/verifharness/core"
	"github.com/gokrazy/rsync/verifharness/drive"
	rp "github.com/gokrazy/rsync/verifharness/refproto"
	"github.com/gokrazy/rsync/verifharness/sched"
	tm "github.com/gokrazy/rsync/verifharness/treemodel"
)

// C18 — sessions terminate and do not interfere under any interleaving.

type c18Tree struct {
	name     string
	src, dst tm.Tree
}

func init() { sched.Progress = core.Heartbeat }

func c18Trees() map[string]c18Tree {
	t := map[string]c18Tree{}
	t["tiny"] = c18Tree{"tiny",
		tm.Tree{tm.D("d", 0o755, tm.Past), tm.File("d/new", genData(famText, 90, 1), 0o644, tm.Past), tm.File("changed", genData(famHash, 1500, 2), 0o644, tm.Past)},
		tm.Tree{tm.File("changed", genData(famHash, 1500, 3), 0o644, tm.Past-9)}}
	var many tm.Tree
	for i := 0; i < 40; i++ {
		many = append(many, tm.File(fmt.Sprintf("f%02d", i), genData(famText, i%2, uint32(i)), 0o644, tm.Past))
	}
	t["many-tiny"] = c18Tree{"many-tiny", many, nil}
	t["tiny-failing"] = c18Tree{"tiny-failing", append(t["tiny"].src.Clone(), tm.File(strings.Repeat("N", 255), []byte("x"), 0o644, tm.Past), tm.File("zz-after", []byte("after"), 0o644, tm.Past)), t["tiny"].dst}
	t["many-tiny-16"] = c18Tree{"many-tiny-16", many[:12].Clone(), nil}
	t["huge-literal"] = c18Tree{"huge-literal", tm.Tree{tm.File("big", genData(famHash, 300*1024, 4), 0o644, tm.Past)}, nil}
	t["literal-over-basis"] = c18Tree{"literal-over-basis", tm.Tree{tm.File("big", genData(famHash, 700*1024, 8), 0o644, tm.Past)}, tm.Tree{tm.File("big", genData(famHash, 1000, 9), 0o644, tm.Past-9)}}
	// a source whose files vanish between listing and sending: 24 files in a row cannot be opened when their
	// data is requested (the module's fs.FS refuses "gone-*"), the destination holds older copies of everything
	var vs, vd tm.Tree
	for i := 0; i < 24; i++ {
		vs = append(vs, tm.File(fmt.Sprintf("gone-%02d", i), genData(famHash, 800, uint32(100+i)), 0o644, tm.Past))
		vd = append(vd, tm.File(fmt.Sprintf("gone-%02d", i), genData(famHash, 800, uint32(200+i)), 0o644, tm.Past-9))
	}
	for _, n := range []string{"a-stays", "zz-stays"} {
		vs = append(vs, tm.File(n, genData(famHash, 900, 7), 0o644, tm.Past))
		vd = append(vd, tm.File(n, genData(famHash, 900, 8), 0o644, tm.Past-9))
	}
	t["vanishing"] = c18Tree{"vanishing", vs, vd}
	basis := genData(famHash, 1<<20, 5)
	edited := append([]byte{}, basis...)
	copy(edited[500000:], genData(famHash, 3000, 6))
	t["huge-sum-list"] = c18Tree{"huge-sum-list", tm.Tree{tm.File("big", edited, 0o644, tm.Past)}, tm.Tree{tm.File("big", basis, 0o644, tm.Past-9)}}
	return t
}

// c18VanishFS lists everything but cannot open files called gone-*: they have vanished since the listing.
type c18VanishFS struct{ fs.FS }

func (v c18VanishFS) Open(name string) (fs.File, error) {
	if strings.HasPrefix(path.Base(name), "gone-") {
		return nil, &fs.PathError{Op: "open", Path: name, Err: fs.ErrNotExist}
	}
	return v.FS.Open(name)
}

// c18Start builds the Start function of a single-session scenario.
func c18Start(arr string, tree c18Tree, args []string) func(w *sched.World) func(bool) string {
	return func(w *sched.World) func(bool) string {
		dir := workDir()
		tree.src.Materialise(filepath.Join(dir, "src"))
		dst := filepath.Join(dir, "dst")
		tree.dst.Materialise(dst)
		var cerr, serr error
		started := true
		var copts []rsyncclient.Option
		copts = append(copts, rsyncclient.DontRestrict(), rsyncclient.WithStderr(io.Discard))
		sending := arr == drive.DaemonPush || arr == drive.LibPush
		if sending {
			copts = append(copts, rsyncclient.WithSender())
		}
		client, err := rsyncclient.New(args, copts...)
		if err != nil {
			started = false
			cerr = err
		}
		ctx := context.Background()
		srcArg := filepath.Join(dir, "src") + "/"
		if started {
			switch arr {
			case drive.LibPull, drive.LibPush:
				srv, _ := rsyncd.NewServer(nil, rsyncd.DontRestrict(), rsyncd.WithStderr(io.Discard), rsyncd.WithLogger(nullLogger{}))
				var sargs, paths []string
				if arr == drive.LibPull {
					sargs, paths = client.ServerCommandOptions(srcArg), []string{dst}
				} else {
					sargs, paths = client.ServerCommandOptions(dst), []string{srcArg}
				}
				w.Go(func() {
					_, cerr = client.Run(ctx, w.Client(), paths)
					w.Client().Close()
				})
				w.Go(func() {
					serr = srv.HandleConnArgs(ctx, rsyncd.NewConnection(w.Server(), w.Server(), "<lib>"), nil, sargs)
					w.Server().Close()
				})
			case drive.DaemonPull, drive.DaemonPush:
				mod := rsyncd.Module{Name: "m", Path: filepath.Join(dir, "src")}
				if tree.name == "vanishing" {
					mod = rsyncd.Module{Name: "m", FS: c18VanishFS{os.DirFS(filepath.Join(dir, "src"))}}
				}
				remote, paths := "m/", []string{dst}
				if arr == drive.DaemonPush {
					mod = rsyncd.Module{Name: "m", Path: dst, Writable: true}
					paths = []string{srcArg}
				}
				srv, _ := rsyncd.NewServer([]rsyncd.Module{mod}, rsyncd.DontRestrict(), rsyncd.WithStderr(io.Discard), rsyncd.WithLogger(nullLogger{}))
				w.Go(func() {
					_, cerr = client.RunDaemon(ctx, w.Client(), remote, paths)
					w.Client().Close()
				})
				w.Go(func() {
					serr = srv.HandleDaemonConn(ctx, rsyncd.NewConnection(w.Server(), w.Server(), "127.0.0.1:7"))
					w.Server().Close()
				})
			}
		}
		return func(finished bool) string {
			after, _ := tm.Snapshot(dst, false)
			clean, temps := after.WithoutTemps()
			out := fmt.Sprintf("finished=%v client=%v server=%v dst=%s temps=%d", finished, cerr, serr, clean.Hash(tm.Fields{Mode: true, Mtime: true}), len(temps))
			cleanup(dir)
			return out
		}
	}
}

type c18Scenario struct {
	arr       string
	tree      string
	c2s, s2c  int
	bound     int
	chunking  bool
	maxExec   int
	expectErr bool   // the session is expected to end with an error (but to end)
	opts      string // "" = -rt; "delete-excl": -rt --delete with 40 exclude rules; "a": -a; "c": -rtc; "sender-fails": a source file that cannot be read
}

func c18Args(opts string) []string {
	switch opts {
	case "delete-excl":
		args := []string{"-rt", "--delete"}
		for k := 0; k < 40; k++ {
			args = append(args, fmt.Sprintf("--exclude=no-such-name-%02d", k))
		}
		return args
	case "wild-excl":
		// a rule the implementation refuses (wildcard) followed by more rules: the refusal arrives while the client is still sending
		args := []string{"-rt", "--exclude=*.o"}
		for k := 0; k < 40; k++ {
			args = append(args, fmt.Sprintf("--exclude=no-such-name-%02d", k))
		}
		return args
	case "a":
		return []string{"-a"}
	case "c":
		return []string{"-rtc"}
	}
	return []string{"-rt"}
}

func capName(c int) string {
	if c >= sched.Inf {
		return "inf"
	}
	return fmt.Sprint(c)
}

func c18RunScenario(s c18Scenario, trees map[string]c18Tree) core.Result {
	res := core.Result{Case: fmt.Sprintf("arr=%s tree=%s capacity c2s=%s s2c=%s deviations<=%d chunking=%v opts=%v", s.arr, s.tree, capName(s.c2s), capName(s.s2c), s.bound, s.chunking, c18Args(s.opts)[:min(3, len(c18Args(s.opts)))])}
	sc := &sched.Scenario{Name: res.Case, CapC2S: s.c2s, CapS2C: s.s2c, Opt: sched.Options{Chunking: s.chunking},
		Start: c18Start(s.arr, trees[s.tree], c18Args(s.opts))}
	var ref string
	st := sched.Explore(core.T, sc, s.bound, s.maxExec, func(x *sched.Exec) string {
		if x.Truncated {
			return ""
		}
		if s.expectErr {
			// which error text surfaces may depend on the schedule; the session must end, with an error, leaving no temp file
			if strings.Contains(x.Outcome, "client=<nil>") || !strings.Contains(x.Outcome, "temps=0") {
				return "failing session did not end with a client-side error and a clean destination: " + x.Outcome
			}
			return ""
		}
		if ref == "" {
			ref = x.Outcome
			if !strings.Contains(ref, "client=<nil> server=<nil>") {
				return "deviation-free schedule failed: " + ref
			}
			return ""
		}
		if x.Outcome != ref {
			return fmt.Sprintf("outcome depends on the schedule: %q vs deviation-free %q", x.Outcome, ref)
		}
		return ""
	})
	cnt(&res, "executions", int64(st.Executions))
	cnt(&res, "transitions", st.Points)
	cnt(&res, "states", st.Points)
	cnt(&res, "traces_validated_against_impl", int64(st.Executions))
	cnt(&res, "deadlocks", int64(st.Deadlocks))
	if st.Capped {
		cnt(&res, "capped_scenarios", 1)
	}
	small := s.c2s < 12 && s.s2c < 12
	ff := []string{"arr", s.arr, "tree", s.tree, "both_caps_lt_greeting", fmt.Sprint(small), "c2s", capName(s.c2s), "s2c", capName(s.s2c)}
	if st.FirstBad != nil {
		sym := "schedule_dependent_outcome"
		if st.FirstBad.Deadlock {
			sym = "deadlock"
		}
		n := len(st.FirstBad.Descr)
		res.Fail = core.Fail(sym, fmt.Sprintf("%s | choices=%v | last steps: %v", st.FirstBadWhy, compact(st.FirstBad.Choices), st.FirstBad.Descr[max(0, n-8):]), ff...)
		res.Outcome = sym
		return res
	}
	res.Nontrivial = st.Executions > 1
	res.Outcome = fmt.Sprintf("ok/executions>1=%v/outcomes=%d", st.Executions > 1, len(st.Outcomes))
	return res
}

// compact renders a choice list without the trailing default choices.
func compact(c []int) string {
	last := -1
	for i, v := range c {
		if v != 0 {
			last = i
		}
	}
	var sb strings.Builder
	fmt.Fprintf(&sb, "[")
	for i := 0; i <= last; i++ {
		if c[i] != 0 {
			fmt.Fprintf(&sb, "%d:%d ", i, c[i])
		}
	}
	fmt.Fprintf(&sb, "] of %d points", len(c))
	return sb.String()
}

var c18Caps = []int{0, 1, 7, 65536, sched.Inf}

func c18BuildSingle(tier string) core.Source {
	drive.Quiet()
	trees := c18Trees()
	var cases []c18Scenario
	arrs := []string{drive.LibPull, drive.LibPush, drive.DaemonPull, drive.DaemonPush}
	for _, arr := range arrs {
		for _, a := range c18Caps {
			for _, b := range c18Caps {
				if tier != "thorough" && (a == 1 || b == 1) && !(a == 1 && b == 1 && (arr == drive.LibPull || arr == drive.DaemonPull)) {
					// capacity 1 multiplies identical one-byte steps: the quick tier keeps (1,1) for the pull arrangements only
					continue
				}
				bound := 1
				if tier == "thorough" && (a == 0 || a == 1 || a >= sched.Inf) && (b == 0 || b == 1 || b >= sched.Inf) {
					bound = 2
				}
				cases = append(cases, c18Scenario{arr: arr, tree: "tiny", c2s: a, s2c: b, bound: bound, chunking: true, maxExec: 60000})
				if tier == "thorough" || ((a == 0 || a == 7 || a >= sched.Inf) && (b == 0 || b == 7 || b >= sched.Inf)) {
					mt := "many-tiny-16"
					if tier == "thorough" {
						mt = "many-tiny"
					}
					cases = append(cases, c18Scenario{arr: arr, tree: mt, c2s: a, s2c: b, bound: 1, chunking: false, maxExec: 20000})
				}
			}
		}
		for _, a := range []int{0, 4096, 65536, sched.Inf} {
			for _, b := range []int{0, 4096, 65536, sched.Inf} {
				bound := 0
				if tier == "thorough" {
					bound = 1
				}
				cases = append(cases, c18Scenario{arr: arr, tree: "huge-literal", c2s: a, s2c: b, bound: bound, maxExec: 3000})
				cases = append(cases, c18Scenario{arr: arr, tree: "huge-sum-list", c2s: a, s2c: b, bound: bound, maxExec: 3000})
			}
		}
	}
	// other option sets change what is exchanged before and after the file data (exclusion list of a deleting push,
	// per-entry checksums, id lists): the same exploration at the extreme capacities
	for _, arr := range arrs {
		for _, opts := range []string{"delete-excl", "a", "c"} {
			for _, a := range []int{0, 7, sched.Inf} {
				for _, b := range []int{0, 7, sched.Inf} {
					if tier != "thorough" && (a == 7 || b == 7) && !(a == 7 && b == 7 && opts == "delete-excl") {
						continue
					}
					cases = append(cases, c18Scenario{arr: arr, tree: "tiny", c2s: a, s2c: b, bound: 1, chunking: false, maxExec: 20000, opts: opts})
				}
			}
		}
	}
	// a refused rule list: the server answers with an error while the client may still be writing rules
	for _, arr := range []string{drive.LibPull, drive.DaemonPull} {
		for _, a := range []int{0, 7, sched.Inf} {
			for _, b := range []int{0, 7, sched.Inf} {
				cases = append(cases, c18Scenario{arr: arr, tree: "tiny", c2s: a, s2c: b, bound: 1, chunking: false, maxExec: 20000, opts: "wild-excl", expectErr: true})
			}
		}
	}
	// a sending side that has to skip a long run of files (vanished since the listing): the session must end
	for _, a := range []int{0, 7, sched.Inf} {
		for _, b := range []int{0, 7, sched.Inf} {
			cases = append(cases, c18Scenario{arr: drive.DaemonPull, tree: "vanishing", c2s: a, s2c: b, bound: 1, chunking: false, maxExec: 20000})
		}
	}
	// a receiving side that fails mid-session (a name too long for the temp file):
	// the session must still end (with an error) under every schedule
	for _, arr := range arrs {
		for _, a := range []int{0, 7, sched.Inf} {
			for _, b := range []int{0, 7, sched.Inf} {
				cases = append(cases, c18Scenario{arr: arr, tree: "tiny-failing", c2s: a, s2c: b, bound: 1, chunking: false, maxExec: 20000, expectErr: true})
			}
		}
	}
	return core.FuncSource{N: len(cases), F: func(i int) core.Result { return c18RunScenario(cases[i], trees) }}
}

// ---- two sessions against one Server, interleaved at operation granularity

type c18Two struct {
	kind     string // pull-pull, pull-push, push-push-distinct, push-push-same
	c2s, s2c int
	bound    int
}

func c18BuildTwo(tier string) core.Source {
	drive.Quiet()
	var cases []c18Two
	for _, k := range []string{"pull-pull", "pull-pull-same", "pull-push", "push-push-distinct", "push-push-same"} {
		for _, cp := range [][2]int{{sched.Inf, sched.Inf}, {7, 7}, {0, sched.Inf}, {sched.Inf, 0}} {
			b := 1
			cases = append(cases, c18Two{k, cp[0], cp[1], b})
		}
	}
	tree := c18Trees()["tiny"]
	return core.FuncSource{N: len(cases), F: func(i int) core.Result {
		c := cases[i]
		res := core.Result{Case: fmt.Sprintf("two sessions on one Server: %s, capacities %s/%s, deviations<=%d", c.kind, capName(c.c2s), capName(c.s2c), c.bound)}
		// solo reference outcomes are computed by running each session alone under the default schedule
		start := func(which int) func(w *sched.World) func(bool) string {
			return func(w *sched.World) func(bool) string {
				dir := workDir()
				tree.src.Materialise(filepath.Join(dir, "srcA"))
				tree.src.Materialise(filepath.Join(dir, "srcB"))
				// make B's content differ from A's
				os.WriteFile(filepath.Join(dir, "srcB", "changed"), genData(famHash, 1500, 77), 0o644)
				setMtime(filepath.Join(dir, "srcB", "changed"), tm.Past, 0)
				dstA, dstB := filepath.Join(dir, "dstA"), filepath.Join(dir, "dstB")
				if c.kind == "push-push-same" {
					dstB = dstA
				}
				tree.dst.Materialise(dstA)
				if dstB != dstA {
					tree.dst.Materialise(dstB)
				}
				mods := []rsyncd.Module{{Name: "ra", Path: filepath.Join(dir, "srcA")}, {Name: "rb", Path: filepath.Join(dir, "srcB")}, {Name: "wa", Path: dstA, Writable: true}, {Name: "wb", Path: dstB, Writable: true}}
				srv, _ := rsyncd.NewServer(mods, rsyncd.DontRestrict(), rsyncd.WithStderr(io.Discard), rsyncd.WithLogger(nullLogger{}))
				ctx := context.Background()
				var errs [4]error
				session := func(conn int, push bool, mod string, local string) {
					var copts []rsyncclient.Option
					copts = append(copts, rsyncclient.DontRestrict(), rsyncclient.WithStderr(io.Discard))
					if push {
						copts = append(copts, rsyncclient.WithSender())
					}
					client, _ := rsyncclient.New([]string{"-rt"}, copts...)
					w.Go(func() {
						_, errs[conn*2] = client.RunDaemon(ctx, w.ClientOf(conn), mod+"/", []string{local})
						w.ClientOf(conn).Close()
					})
					w.Go(func() {
						errs[conn*2+1] = srv.HandleDaemonConn(ctx, rsyncd.NewConnection(w.ServerOf(conn), w.ServerOf(conn), fmt.Sprintf("127.0.0.1:%d", 100+conn)))
						w.ServerOf(conn).Close()
					})
				}
				w.AddConn(c.c2s, c.s2c)
				runA, runB := which != 2, which != 1
				switch c.kind {
				case "pull-pull":
					if runA {
						session(0, false, "ra", dstA)
					}
					if runB {
						session(1, false, "rb", dstB)
					}
				case "pull-pull-same":
					// both sessions read the SAME module directory: whatever one session opens, caches or closes
					// for that directory must not affect the other
					if runA {
						session(0, false, "ra", dstA)
					}
					if runB {
						session(1, false, "ra", dstB)
					}
				case "pull-push":
					if runA {
						session(0, false, "ra", dstA)
					}
					if runB {
						session(1, true, "wb", filepath.Join(dir, "srcB")+"/")
					}
				default:
					if runA {
						session(0, true, "wa", filepath.Join(dir, "srcA")+"/")
					}
					if runB {
						session(1, true, "wb", filepath.Join(dir, "srcB")+"/")
					}
				}
				return func(finished bool) string {
					a, _ := tm.Snapshot(dstA, false)
					b, _ := tm.Snapshot(dstB, false)
					ca, ta := a.WithoutTemps()
					cb, tb := b.WithoutTemps()
					f := tm.Fields{Mode: true, Mtime: true}
					out := fmt.Sprintf("finished=%v errs=%v A=%s B=%s temps=%d", finished, errs, ca.Hash(f), cb.Hash(f), len(ta)+len(tb))
					if c.kind == "push-push-same" {
						// identical target: each file must be one of the two complete versions
						out = fmt.Sprintf("finished=%v errs=%v temps=%d", finished, errs, len(ta))
						for _, e := range ca {
							if e.Type != tm.Reg {
								continue
							}
							okA, okB := false, false
							if b, err := os.ReadFile(filepath.Join(dir, "srcA", e.Path)); err == nil && tm.SumOf(b) == e.Sum {
								okA = true
							}
							if b, err := os.ReadFile(filepath.Join(dir, "srcB", e.Path)); err == nil && tm.SumOf(b) == e.Sum {
								okB = true
							}
							if !okA && !okB {
								out += " MIXED:" + e.Path
							}
						}
					}
					cleanup(dir)
					return out
				}
			}
		}
		mk := func(which int) *sched.Scenario {
			return &sched.Scenario{Name: res.Case, CapC2S: c.c2s, CapS2C: c.s2c, Opt: sched.Options{}, Start: start(which)}
		}
		// solo runs
		soloA := sched.RunOne(core.T, mk(1), nil)
		soloB := sched.RunOne(core.T, mk(2), nil)
		if !soloA.Finished || !soloB.Finished {
			res.Fail = core.Fail("deadlock", "solo session did not finish: "+soloA.Pending+soloB.Pending, "kind", c.kind)
			return res
		}
		var ref string
		st := sched.Explore(core.T, mk(0), c.bound, 20000, func(x *sched.Exec) string {
			if ref == "" {
				ref = x.Outcome
				if strings.Contains(ref, "MIXED") || !strings.Contains(ref, "errs=[<nil> <nil> <nil> <nil>]") {
					return "deviation-free interleaving failed: " + ref
				}
				// each session's result equals its solo result
				if c.kind != "push-push-same" {
					wantA := between(soloA.Outcome, " A=", " ")
					wantB := between(soloB.Outcome, " B=", " ")
					if between(ref, " A=", " ") != wantA || between(ref, " B=", " ") != wantB {
						return fmt.Sprintf("concurrent result differs from solo results: %q vs soloA %q soloB %q", ref, soloA.Outcome, soloB.Outcome)
					}
				}
				return ""
			}
			if c.kind == "push-push-same" {
				if strings.Contains(x.Outcome, "MIXED") || !strings.Contains(x.Outcome, "errs=[<nil> <nil> <nil> <nil>]") || !strings.Contains(x.Outcome, "temps=0") {
					return "sessions interfered: " + x.Outcome
				}
				return ""
			}
			if x.Outcome != ref {
				return fmt.Sprintf("sessions interfered: %q vs %q", x.Outcome, ref)
			}
			return ""
		})
		cnt(&res, "executions", int64(st.Executions)+2)
		cnt(&res, "transitions", st.Points)
		cnt(&res, "states", st.Points)
		cnt(&res, "traces_validated_against_impl", int64(st.Executions))
		if st.FirstBad != nil {
			sym := "sessions_interfere"
			if st.FirstBad.Deadlock {
				sym = "deadlock"
			}
			res.Fail = core.Fail(sym, st.FirstBadWhy+" | choices="+compact(st.FirstBad.Choices), "kind", c.kind)
			return res
		}
		res.Nontrivial = st.Executions > 1
		res.Outcome = fmt.Sprintf("ok/%s", c.kind)
		return res
	}}
}

func between(s, a, b string) string {
	i := strings.Index(s, a)
	if i < 0 {
		return ""
	}
	s = s[i+len(a):]
	if j := strings.Index(s, b); j >= 0 {
		return s[:j]
	}
	return s
}

// ---- the local arrangement (server in-process over io.Pipe) inside a bubble:
// the runtime reports the instant at which every goroutine is durably blocked.

func c18BuildLocal(tier string) core.Source {
	drive.Quiet()
	trees := c18Trees()
	names := []string{"tiny", "many-tiny", "huge-literal", "huge-sum-list"}
	return core.FuncSource{N: len(names), F: func(i int) core.Result {
		name := names[i]
		res := core.Result{Case: "local copy (in-process server over unbuffered pipes), tree " + name}
		tree := trees[strings.TrimSuffix(name, "-with-failing-file")]
		failing := strings.HasSuffix(name, "-with-failing-file")
		if failing {
			// a 255-byte name cannot be received (temp name too long): the receiver side errors mid-session
			tree.src = append(tree.src.Clone(), tm.File(strings.Repeat("N", 255), []byte("x"), 0o644, tm.Past))
		}
		sc := &sched.Scenario{Name: res.Case, CapC2S: 0, CapS2C: 0, Start: func(w *sched.World) func(bool) string {
			dir := workDir()
			tree.src.Materialise(filepath.Join(dir, "src"))
			dst := filepath.Join(dir, "dst")
			tree.dst.Materialise(dst)
			var cerr error
			w.Go(func() {
				cmd := rsynccmd.Command("rsync", "-rt", filepath.Join(dir, "src")+"/", dst)
				cmd.Stdout, cmd.Stderr, cmd.DontRestrict = io.Discard, io.Discard, true
				_, cerr = cmd.Run(context.Background())
			})
			return func(fin bool) string {
				after, _ := tm.Snapshot(dst, false)
				clean, _ := after.WithoutTemps()
				want, _ := tm.Snapshot(filepath.Join(dir, "src"), false)
				same := len(tm.Diff(want, clean, tm.Fields{})) == 0
				cleanup(dir)
				return fmt.Sprintf("finished=%v err=%v complete=%v", fin, cerr, same)
			}
		}}
		x := sched.RunOne(core.T, sc, nil)
		cnt(&res, "executions", 1)
		cnt(&res, "transitions", 1)
		cnt(&res, "states", 1)
		ff := []string{"arr", "local", "receiver_error_injected", fmt.Sprint(failing)}
		if x.Deadlock || !x.Finished {
			res.Fail = core.Fail("deadlock", "the local copy never returns: every goroutine is blocked (no transport operation pending on the harness side): "+x.Outcome, ff...)
			return res
		}
		if !failing && !strings.Contains(x.Outcome, "err=<nil> complete=true") {
			res.Fail = core.Fail("local_copy_failed", x.Outcome, ff...)
			return res
		}
		res.Nontrivial = true
		res.Outcome = "ok/" + name
		return res
	}}
}

// ---- free-running pass under the race detector

func c18BuildRace(tier string) core.Source {
	drive.Quiet()
	ns := []int{2, 4, 8}
	if tier == "thorough" {
		ns = []int{2, 4, 8, 16, 32}
	}
	type cs struct {
		n     int
		procs int
	}
	var cases []cs
	for _, n := range ns {
		for _, p := range []int{1, 2, 4, 16} {
			cases = append(cases, cs{n, p})
		}
	}
	tree := c18Trees()["tiny"]
	big := c18Trees()["huge-sum-list"]
	return core.FuncSource{N: len(cases), F: func(i int) core.Result {
		c := cases[i]
		res := core.Result{Case: fmt.Sprintf("free-running: %d concurrent sessions (pulls and uploads, distinct and identical targets) on one Server, GOMAXPROCS=%d, race detector on", c.n, c.procs)}
		prev := setMaxProcs(c.procs)
		defer setMaxProcs(prev)
		dir := workDir()
		defer cleanup(dir)
		tree.src.Materialise(filepath.Join(dir, "src"))
		big.src.Materialise(filepath.Join(dir, "srcbig"))
		mods := []rsyncd.Module{{Name: "r", Path: filepath.Join(dir, "src")}, {Name: "rbig", Path: filepath.Join(dir, "srcbig")}}
		for k := 0; k < c.n; k++ {
			d := filepath.Join(dir, fmt.Sprintf("up%d", k/2)) // pairs share a target
			// every destination starts with stale copies so that every session generates and matches block sums
			tree.dst.Materialise(d)
			if k%4 == 0 {
				big.dst.Materialise(filepath.Join(dir, fmt.Sprintf("down%d", k)))
			} else {
				tree.dst.Materialise(filepath.Join(dir, fmt.Sprintf("down%d", k)))
			}
			mods = append(mods, rsyncd.Module{Name: fmt.Sprintf("w%d", k), Path: d, Writable: true})
		}
		srv, _ := rsyncd.NewServer(mods, rsyncd.DontRestrict(), rsyncd.WithStderr(io.Discard), rsyncd.WithLogger(nullLogger{}))
		var wg sync.WaitGroup
		errs := make([]error, c.n)
		for k := 0; k < c.n; k++ {
			wg.Add(1)
			go func(k int) {
				defer wg.Done()
				c2s, s2c := drive.NewPipe(false), drive.NewPipe(false)
				var copts []rsyncclient.Option
				copts = append(copts, rsyncclient.DontRestrict(), rsyncclient.WithStderr(io.Discard))
				push := k%2 == 1
				if push {
					copts = append(copts, rsyncclient.WithSender())
				}
				client, _ := rsyncclient.New([]string{"-rt"}, copts...)
				done := make(chan struct{})
				go func() {
					defer close(done)
					srv.HandleDaemonConn(context.Background(), rsyncd.NewConnection(c2s, s2c, fmt.Sprintf("127.0.0.1:%d", 1000+k)))
					s2c.Close()
				}()
				if push {
					_, errs[k] = client.RunDaemon(context.Background(), &drive.RW{Reader: s2c, Writer: c2s}, fmt.Sprintf("w%d/", k), []string{filepath.Join(dir, "src") + "/"})
				} else {
					mod := "r/"
					if k%4 == 0 {
						mod = "rbig/"
					}
					_, errs[k] = client.RunDaemon(context.Background(), &drive.RW{Reader: s2c, Writer: c2s}, mod, []string{filepath.Join(dir, fmt.Sprintf("down%d", k))})
				}
				c2s.Close()
				<-done
			}(k)
		}
		wg.Wait()
		cnt(&res, "executions", 1)
		cnt(&res, "transitions", int64(c.n))
		cnt(&res, "states", int64(c.n))
		for k, e := range errs {
			if e != nil {
				res.Fail = core.Fail("concurrent_session_failed", fmt.Sprintf("session %d: %v", k, e))
				return res
			}
		}
		// every result equals the solo result
		want, _ := tm.Snapshot(filepath.Join(dir, "src"), false)
		wantBig, _ := tm.Snapshot(filepath.Join(dir, "srcbig"), false)
		for k := 0; k < c.n; k++ {
			got, w := tm.Tree(nil), want
			if k%2 == 1 {
				got, _ = tm.Snapshot(filepath.Join(dir, fmt.Sprintf("up%d", k/2)), false)
			} else {
				got, _ = tm.Snapshot(filepath.Join(dir, fmt.Sprintf("down%d", k)), false)
				if k%4 == 0 {
					w = wantBig
				}
			}
			got, _ = got.WithoutTemps()
			if d := tm.Diff(w, got, tm.Fields{}); len(d) > 0 {
				res.Fail = core.Fail("sessions_interfere", fmt.Sprintf("session %d result differs from its solo result: %s", k, trunc(strings.Join(d, ";"), 300)))
				return res
			}
		}
		res.Nontrivial = true
		res.Outcome = fmt.Sprintf("ok/n=%d", c.n)
		return res
	}}
}

// c18BuildAborted: a peer requests a large file and drops the connection
// mid-file; whatever the aborted session leaves running (goroutines that still
// read the file) must not interfere with the ordinary sessions that follow
// immediately and concurrently on the same Server. Free-running under the race
// detector.
func c18BuildAborted(tier string) core.Source {
	drive.Quiet()
	type cs struct {
		procs, rounds int
		cutAfter      int
	}
	var cases []cs
	for _, p := range []int{1, 4, 16} {
		for _, cut := range []int{1 << 16, 1 << 20} {
			cases = append(cases, cs{p, 3, cut})
		}
	}
	bigData := genData(famHash, 24<<20, 181)
	var mid tm.Tree
	for k := 0; k < 4; k++ {
		mid = append(mid, tm.File(fmt.Sprintf("m%d", k), genData(famHash, 300000+k*70001, uint32(190+k)), 0o644, tm.Past))
	}
	return core.FuncSource{N: len(cases), F: func(i int) core.Result {
		c := cases[i]
		res := core.Result{Case: fmt.Sprintf("free-running: %d rounds of {a download of a 24 MiB file dropped by the peer after %d bytes, then 4 concurrent ordinary downloads} on one Server, GOMAXPROCS=%d, race detector on", c.rounds, c.cutAfter, c.procs)}
		prev := setMaxProcs(c.procs)
		defer setMaxProcs(prev)
		dir := workDir()
		defer cleanup(dir)
		tm.Tree{tm.File("big", bigData, 0o644, tm.Past)}.Materialise(filepath.Join(dir, "big"))
		mid.Materialise(filepath.Join(dir, "mid"))
		srv, _ := rsyncd.NewServer([]rsyncd.Module{{Name: "big", Path: filepath.Join(dir, "big")}, {Name: "mid", Path: filepath.Join(dir, "mid")}}, rsyncd.DontRestrict(), rsyncd.WithStderr(io.Discard), rsyncd.WithLogger(nullLogger{}))
		for round := 0; round < c.rounds; round++ {
			// the aborting peer: handshake, empty filter list, request index 1 ("big") in full, read a while, vanish
			c2s, s2c := drive.NewPipe(false), drive.NewPipe(false)
			sdone := make(chan struct{})
			go func() {
				defer close(sdone)
				srv.HandleDaemonConn(context.Background(), rsyncd.NewConnection(c2s, s2c, "127.0.0.1:2000"))
				s2c.Close()
			}()
			var w rp.W
			w.Int(0) // end of filter list
			w.Int(1) // index of "big" ("." is 0)
			rp.SumHead{Count: 0, BLen: 700, S2Len: 16}.Write(&w)
			c2s.Write([]byte("@RSYNCD: 27\nbig\n--server\n--sender\n-r\n.\nbig/\n\n"))
			c2s.Write(w.Bytes())
			buf := make([]byte, 32768)
			for got := 0; got < c.cutAfter; {
				n, err := s2c.Read(buf)
				got += n
				if err != nil {
					break
				}
			}
			s2c.Close()
			c2s.Close()
			// ordinary sessions start at once, concurrently with whatever the aborted session left behind
			var wg sync.WaitGroup
			errs := make([]error, 4)
			for k := 0; k < 4; k++ {
				wg.Add(1)
				go func(k int) {
					defer wg.Done()
					a, b := drive.NewPipe(false), drive.NewPipe(false)
					client, _ := rsyncclient.New([]string{"-rt"}, rsyncclient.DontRestrict(), rsyncclient.WithStderr(io.Discard))
					done := make(chan struct{})
					go func() {
						defer close(done)
						srv.HandleDaemonConn(context.Background(), rsyncd.NewConnection(a, b, fmt.Sprintf("127.0.0.1:%d", 3000+k)))
						b.Close()
					}()
					_, errs[k] = client.RunDaemon(context.Background(), &drive.RW{Reader: b, Writer: a}, "mid/", []string{filepath.Join(dir, fmt.Sprintf("down-%d-%d", round, k))})
					a.Close()
					<-done
				}(k)
			}
			wg.Wait()
			<-sdone
			cnt(&res, "transitions", 5)
			cnt(&res, "states", 5)
			for k, e := range errs {
				if e != nil {
					res.Fail = core.Fail("concurrent_session_failed", fmt.Sprintf("round %d: ordinary session %d after an aborted download: %v", round, k, e), "part", "aborted")
					return res
				}
				got, _ := tm.Snapshot(filepath.Join(dir, fmt.Sprintf("down-%d-%d", round, k)), false)
				got, _ = got.WithoutTemps()
				if d := tm.Diff(mid, got, tm.Fields{}); len(d) > 0 {
					res.Fail = core.Fail("sessions_interfere", fmt.Sprintf("round %d: ordinary session %d after an aborted download got other data: %s", round, k, trunc(strings.Join(d, ";"), 300)), "part", "aborted")
					return res
				}
			}
		}
		cnt(&res, "executions", 1)
		res.Nontrivial = true
		res.Outcome = "ok/aborted"
		return res
	}}
}

func init() {
	core.Register(&core.Prop{
		ID:    "C18",
		Level: "model_checking",
		Rule: "single: every order in which pending transport operations of client and server complete, with <=1 (thorough <=2) deviations (preemptions; 1-byte and half transfers) from the run-to-completion schedule, explored by stateless DFS under a synctest-based controlled scheduler, for arrangements {lib-pull, lib-push, daemon-pull, daemon-push} x capacities {0,1,7,65536,inf}^2 x trees {tiny, many-tiny; huge-literal and huge-sum-list at capacities {0,4096,65536,inf}^2}, a source whose files vanish after the listing (24 in a row), plus the option sets {-rt --delete with 40 exclude rules, -a, -rtc} at capacities {0,inf}^2 (thorough {0,7,inf}^2); two: two sessions on one Server (pull||pull from two modules and from the same module, pull||upload, upload||upload to distinct and to the identical target) interleaved at operation granularity; local: the in-process-server local copy inside a bubble (deadlock = every goroutine durably blocked); race: free-running concurrent pulls and uploads on one Server under the race detector with GOMAXPROCS in {1,2,4,16}; aborted: rounds of a 24 MiB download dropped by the peer mid-file followed at once by 4 concurrent ordinary downloads on the same Server, under the race detector. " +
			"oracle: every execution finishes (structural deadlock detection, no timeouts) and its outcome (errors, destination snapshot, no leftover temp files) equals the deviation-free outcome / the solo outcome. states = scheduling points visited, transitions = transport operations executed",
		Assum: []string{"goroutines blocked in file-system syscalls are not scheduling points (synctest.Wait waits for them)", "the cooperative scheduler hides data races; they are looked for in the separate free-running -race part"},
		Parts: func(tier string) []core.Part {
			return []core.Part{
				{Name: "single", Build: c18BuildSingle},
				{Name: "two", Build: c18BuildTwo},
				{Name: "local", Build: c18BuildLocal},
				{Name: "race", Build: c18BuildRace, Race: true, Par: 4},
				{Name: "aborted", Build: c18BuildAborted, Race: true, Par: 3},
			}
		},
	})
}
