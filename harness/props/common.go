package props

import (
	"crypto/md5"
	"encoding/binary"
	"fmt"
	"os"
	"path/filepath"
	"strings"
	"sync/atomic"

	"github.com/gokrazy/rsync/verifharness/core"
	"github.com/gokrazy/rsync/verifharness/drive"
	tm "github.com/gokrazy/rsync/verifharness/treemodel"
)

var caseSeq atomic.Int64

// workDir returns a fresh scratch directory for one case.
func workDir() string {
	d := filepath.Join(core.Scratch(), fmt.Sprintf("w%d", os.Getpid()), fmt.Sprintf("c%d", caseSeq.Add(1)))
	os.MkdirAll(d, 0o755)
	core.Heartbeat() // a new scratch directory = a new session of the current case: progress
	return d
}

func cleanup(d string) { tm.RemoveAll(d) }

// Content families (deterministic functions of (family, size, salt)).
const (
	famHash = iota
	famZero
	famP7
	famFF
	famText
	famP701
	nFam
)

var famNames = []string{"hash", "zero", "p7", "ff", "text", "p701"}

func genData(fam int, size int, salt uint32) []byte {
	b := make([]byte, size)
	switch fam {
	case famHash:
		var ctr [8]byte
		binary.LittleEndian.PutUint32(ctr[4:], salt)
		for off := 0; off < size; off += 16 {
			binary.LittleEndian.PutUint32(ctr[:4], uint32(off/16))
			h := md5.Sum(ctr[:])
			copy(b[off:], h[:])
		}
	case famZero:
	case famP7:
		for i := range b {
			b[i] = byte("abcdefg"[i%7]) + byte(salt%3)
		}
	case famFF:
		for i := range b {
			b[i] = 0xff
		}
	case famText:
		line := fmt.Sprintf("The quick brown fox %d jumps over the lazy dog.\n", salt)
		for i := range b {
			b[i] = line[i%len(line)]
		}
	case famP701:
		for i := range b {
			b[i] = byte((i%701)*7 + int(salt))
		}
	}
	return b
}

// syncCase is one real sync between two materialised trees.
type syncCase struct {
	Arr  string
	Args []string
	Src  tm.Tree
	Dst  tm.Tree // prior destination state
	Form string  // "contents" (src/), "dir" (src), "two", "file:<rel>", "subdir:<rel>", "subcontents:<rel>"
	Src2 tm.Tree // optional second source root (form "two": src/ src2/)
	Rec  bool
	Tag  string // free-form tag that becomes a failure feature
}

type syncResult struct {
	Out    *drive.Outcome
	Before tm.Tree // destination before (snapshot)
	After  tm.Tree
	SrcAft tm.Tree
	Prefix string // destination prefix under which source-relative paths land ("" or "src/")
	Dir    string
}

func (sc *syncCase) String() string {
	return fmt.Sprintf("arr=%s args=%v form=%s", sc.Arr, sc.Args, sc.Form)
}

// run materialises both trees, runs the session and snapshots. The caller must cleanup(res.Dir).
func (sc *syncCase) run(keepData bool) (*syncResult, error) {
	dir := workDir()
	res := &syncResult{Dir: dir}
	if err := sc.Src.Materialise(filepath.Join(dir, "src")); err != nil {
		return res, fmt.Errorf("materialise src: %v", err)
	}
	if sc.Src2 != nil {
		if err := sc.Src2.Materialise(filepath.Join(dir, "src2")); err != nil {
			return res, fmt.Errorf("materialise src2: %v", err)
		}
	}
	dst := filepath.Join(dir, "dst")
	if err := sc.Dst.Materialise(dst); err != nil {
		return res, fmt.Errorf("materialise dst: %v", err)
	}
	var err error
	res.Before, err = tm.Snapshot(dst, keepData)
	if err != nil {
		return res, err
	}
	var sources []string
	switch {
	case sc.Form == "contents":
		sources = []string{"src/"}
	case sc.Form == "dir":
		sources = []string{"src"}
		res.Prefix = "src/"
	case sc.Form == "two":
		sources = []string{"src/", "src2/"}
	case sc.Form == "two-noslash":
		// two directories whose names are prefixes of one another, named without trailing slash
		sources = []string{"src", "src2"}
	case strings.HasPrefix(sc.Form, "two-files:"):
		// a file from each of the two prefix-named directories
		sources = []string{"src/" + strings.TrimPrefix(sc.Form, "two-files:"), "src2/second-1"}
	case strings.HasPrefix(sc.Form, "file:"):
		sources = []string{"src/" + strings.TrimPrefix(sc.Form, "file:")}
	case strings.HasPrefix(sc.Form, "subdir:"):
		// a directory below the source root, without trailing slash: lands at dest/<base>/
		rel := strings.TrimPrefix(sc.Form, "subdir:")
		sources = []string{"src/" + rel}
		res.Prefix = rel[strings.LastIndex(rel, "/")+1:] + "/"
	case strings.HasPrefix(sc.Form, "subcontents:"):
		// the contents of a directory below the source root
		sources = []string{"src/" + strings.TrimPrefix(sc.Form, "subcontents:") + "/"}
	default:
		return res, fmt.Errorf("bad form %q", sc.Form)
	}
	base := dir
	if strings.HasPrefix(sc.Form, "file:") && sc.Arr == drive.DaemonPull {
		// module root = source root, request "m/<rel>"
		base = filepath.Join(dir, "src")
		sources = []string{strings.TrimPrefix(sc.Form, "file:")}
	}
	sub := strings.HasPrefix(sc.Form, "sub")
	res.Out = drive.Run(drive.Job{Arr: sc.Arr, Args: sc.Args, Base: base, Sources: sources, Dest: dst, Record: sc.Rec, SubdirPull: sub})
	res.After, err = tm.Snapshot(dst, keepData)
	if err != nil {
		return res, err
	}
	return res, nil
}

// optSet helpers ---------------------------------------------------------

type optSet struct {
	args []string
}

func has(args []string, short byte, long string) bool {
	for _, a := range args {
		if long != "" && a == "--"+long {
			return true
		}
		if len(a) >= 2 && a[0] == '-' && a[1] != '-' && strings.IndexByte(a[1:], short) >= 0 {
			return true
		}
	}
	return false
}

// effective option view with -a expansion.
type eff struct {
	r, l, p, t, g, o, D, c, I, n, del bool
	devices, specials                 bool
}

func effective(args []string) eff {
	var e eff
	for _, a := range args {
		switch {
		case a == "--delete":
			e.del = true
		case a == "--devices":
			e.devices = true
		case a == "--specials":
			e.specials = true
		case a == "--no-D":
			e.devices, e.specials = false, false
		case strings.HasPrefix(a, "--"):
		case strings.HasPrefix(a, "-"):
			for _, ch := range a[1:] {
				switch ch {
				case 'a':
					e.r, e.l, e.p, e.t, e.g, e.o, e.devices, e.specials = true, true, true, true, true, true, true, true
				case 'r':
					e.r = true
				case 'l':
					e.l = true
				case 'p':
					e.p = true
				case 't':
					e.t = true
				case 'g':
					e.g = true
				case 'o':
					e.o = true
				case 'D':
					e.devices, e.specials = true, true
				case 'c':
					e.c = true
				case 'I':
					e.I = true
				case 'n':
					e.n = true
				}
			}
		}
	}
	e.D = e.devices && e.specials
	return e
}

// subsetArgs renders the subset (bitmask) of single-letter flags as one "-xyz" argument.
func subsetArgs(letters string, mask int, always string) []string {
	s := "-" + always
	for i := 0; i < len(letters); i++ {
		if mask&(1<<i) != 0 {
			s += string(letters[i])
		}
	}
	if s == "-" {
		return nil
	}
	return []string{s}
}

func cnt(r *core.Result, k string, n int64) {
	if r.Counters == nil {
		r.Counters = map[string]int64{}
	}
	r.Counters[k] += n
}
