package props

import (
	"bytes"
	"context"
	"fmt"
	"net/netip"
	"os"
	"path/filepath"
	"strings"

	"github.com/gokrazy/rsync/rsyncd"
	"github.com/gokrazy/rsync/verifharness/core"
)

// C19 — module ACL is first-match allow/deny.
//
// Space: every rule list of length 0..3 over a pool of allow/deny rules on
// "all", nested/disjoint IPv4/IPv6 prefixes and malformed rules, times a pool
// of client addresses on and around every prefix boundary. Each case performs
// real daemon handshakes (HandleDaemonConn over an in-memory connection named
// after the client address), followed by a complete listing request, and
// compares with an independent first-match evaluator.

var c19Nets = []string{"10.0.0.0/8", "10.1.2.0/24", "10.1.2.3/32", "0.0.0.0/0", "2001:db8::/32", "::/0"}
var c19NetsThorough = []string{"10.0.0.0/8", "10.1.0.0/16", "10.1.2.0/24", "10.1.2.3/32", "192.168.0.0/16", "0.0.0.0/0", "2001:db8::/32", "2001:db8:1::/48", "::/0", "::1/128", "10.1.2.3/8"}
var c19Malformed = []string{"allow", "permit all", "deny 10.0.0.0", "allow 10.0.0.0/33"}
var c19Addrs = []string{"10.0.0.0", "10.255.255.255", "11.0.0.0", "9.255.255.255", "10.1.2.3", "10.1.2.4", "10.1.3.0", "192.168.1.1", "127.0.0.1", "::1", "2001:db8::1", "2001:db8:1::1", "2001:db9::1", "::ffff:10.1.2.3", "::ffff:11.0.0.1", "fe80::1"}
var c19AddrsThorough = append(append([]string{}, c19Addrs...), "10.1.255.255", "10.2.0.0", "192.167.255.255", "192.169.0.0", "0.0.0.0", "255.255.255.255", "2001:db8:1:ffff:ffff:ffff:ffff:ffff", "2001:db8:2::", "::", "::ffff:192.168.0.1")

func c19Pool(tier string) (rules, addrs []string) {
	nets := c19Nets
	addrs = c19Addrs
	if tier == "thorough" {
		nets = c19NetsThorough
		addrs = c19AddrsThorough
	}
	rules = []string{"allow all", "deny all"}
	for _, n := range nets {
		rules = append(rules, "allow "+n, "deny "+n)
	}
	rules = append(rules, c19Malformed...)
	return
}

// c19Ref is the independent reference evaluator: returns true if access is granted.
func c19Ref(rules []string, addr string) bool {
	ip, err := netip.ParseAddr(addr)
	if err != nil {
		panic(err)
	}
	ip = ip.Unmap()
	for _, r := range rules {
		sp := strings.IndexByte(r, ' ')
		if sp < 0 {
			return false // malformed rule reached
		}
		action, who := r[:sp], r[sp+1:]
		if action != "allow" && action != "deny" {
			return false
		}
		if who != "all" {
			pfx, err := netip.ParsePrefix(who)
			if err != nil {
				return false
			}
			pfx = pfx.Masked()
			if pfx.Addr().Is4() != ip.Is4() {
				continue
			}
			// own bit-prefix comparison
			a, b := ip.AsSlice(), pfx.Addr().AsSlice()
			match := true
			for bit := 0; bit < pfx.Bits(); bit++ {
				if (a[bit/8]>>(7-bit%8))&1 != (b[bit/8]>>(7-bit%8))&1 {
					match = false
					break
				}
			}
			if !match {
				continue
			}
		}
		return action == "allow"
	}
	return true
}

const c19Secret = "SECRET-c19-module-data"

func c19Handshake(modDir string, rules []string, addr string) (out string, err error) {
	srv, err := rsyncd.NewServer([]rsyncd.Module{{Name: "mod", Path: modDir, ACL: rules}},
		rsyncd.DontRestrict(), rsyncd.WithStderr(discard{}), rsyncd.WithLogger(nullLogger{}))
	if err != nil {
		return "", err
	}
	name := addr + ":4711"
	if strings.Contains(addr, ":") {
		name = "[" + addr + "]:4711"
	}
	var in bytes.Buffer
	in.WriteString("@RSYNCD: 27\nmod\n--server\n--sender\n-r\n.\nmod/\n\n")
	in.Write([]byte{0, 0, 0, 0})                                                 // empty filter list
	in.Write([]byte{255, 255, 255, 255, 255, 255, 255, 255, 255, 255, 255, 255}) // -1 -1 -1: end of phases and goodbye
	var outb bytes.Buffer
	conn := rsyncd.NewConnection(&in, &outb, name)
	_ = srv.HandleDaemonConn(context.Background(), conn)
	return outb.String(), nil
}

func init() {
	core.Register(&core.Prop{
		ID:    "C19",
		Level: "model_checking",
		Rule: "every ACL rule list of length 0..3 over the rule pool (allow/deny x {all, nested and disjoint IPv4/IPv6 prefixes} + 4 malformed rules), each evaluated by a real daemon handshake + listing request for every address of the address pool; " +
			"a case (one rule list) is non-trivial when it has at least one rule and both grant and refusal occur among its addresses or a malformed rule is reached; states = (rule list, address) pairs, transitions = handshakes",
		Assum: []string{"reference evaluator (netip based bit-prefix comparison) is correct", "connection name is host:port as produced by net.Conn.RemoteAddr"},
		Parts: func(tier string) []core.Part {
			return []core.Part{{Name: "lists", Build: func(tier string) core.Source {
				rules, addrs := c19Pool(tier)
				var lists [][]string
				lists = append(lists, nil)
				for _, a := range rules {
					lists = append(lists, []string{a})
				}
				for _, a := range rules {
					for _, b := range rules {
						lists = append(lists, []string{a, b})
					}
				}
				for _, a := range rules {
					for _, b := range rules {
						for _, c := range rules {
							lists = append(lists, []string{a, b, c})
						}
					}
				}
				modDir := filepath.Join(core.Scratch(), fmt.Sprintf("c19-mod-%d", os.Getpid()))
				os.MkdirAll(modDir, 0o755)
				os.WriteFile(filepath.Join(modDir, c19Secret), []byte(c19Secret+"-content"), 0o644)
				return core.FuncSource{N: len(lists), F: func(i int) core.Result {
					rl := lists[i]
					res := core.Result{Case: fmt.Sprintf("acl=%q", rl), Counters: map[string]int64{}}
					grants, denies := 0, 0
					for _, addr := range addrs {
						want := c19Ref(rl, addr)
						out, err := c19Handshake(modDir, rl, addr)
						res.Counters["states"]++
						res.Counters["transitions"]++
						res.Counters["traces_validated_against_impl"]++
						if err != nil {
							res.Inconcl = err.Error()
							continue
						}
						const greet = "@RSYNCD: 27\n"
						if !strings.HasPrefix(out, greet) {
							res.Fail = core.Fail("bad_greeting", fmt.Sprintf("addr=%s out=%q", addr, out))
							return res
						}
						rest := out[len(greet):]
						granted := strings.HasPrefix(rest, "@RSYNCD: OK\n")
						if granted {
							grants++
						} else {
							denies++
						}
						if granted != want {
							sym := "granted_but_must_refuse"
							if want {
								sym = "refused_but_must_grant"
							}
							res.Fail = core.Fail(sym, fmt.Sprintf("addr=%s acl=%q reply=%q", addr, rl, trunc(rest, 120)))
							return res
						}
						if granted {
							if !strings.Contains(rest, c19Secret) {
								res.Fail = core.Fail("granted_but_no_data", fmt.Sprintf("addr=%s acl=%q reply=%q", addr, rl, trunc(rest, 200)))
								return res
							}
						} else {
							// exactly one @ERROR line and no further bytes
							if !strings.HasPrefix(rest, "@ERROR") || strings.Count(rest, "\n") != 1 || !strings.HasSuffix(rest, "\n") || strings.Contains(rest, c19Secret) {
								res.Fail = core.Fail("refusal_not_clean", fmt.Sprintf("addr=%s acl=%q reply=%q", addr, rl, trunc(rest, 200)))
								return res
							}
						}
					}
					res.Outcome = fmt.Sprintf("grants=%d/denies=%d", grants, denies)
					res.Nontrivial = len(rl) > 0 && grants > 0 && denies > 0
					return res
				}}
			}}}
		},
	})
}
