package props

import (
	"bytes"
	"context"
	"fmt"
	"net/netip"
	"os"
	"path/filepath"
	"strings"

	"github.com/gokrazy/rsync/rsyncd"
	"github.com/gokrazy/rsync/verifharness/core"
)

// C19 — module ACL is first-match allow/deny.
//
// Space: every rule list of length 0..3 over a pool of allow/deny rules on
// "all", nested/disjoint IPv4/IPv6 prefixes and malformed rules, times a pool
// of client addresses on and around every prefix boundary. Each case performs
// real daemon handshakes (HandleDaemonConn over an in-memory connection named
// after the client address), followed by a complete listing request, and
// compares with an independent first-match evaluator.

// incl. nested networks that share their network address (10.0.0.0/8 and /24, 2001:db8::/32 and /128)
var c19Nets = []string{"10.0.0.0/8", "10.0.0.0/24", "10.1.2.0/24", "10.1.2.3/32", "0.0.0.0/0", "2001:db8::/32", "2001:db8::/128", "::/0"}
var c19NetsThorough = []string{"10.0.0.0/24", "2001:db8::/128", "10.0.0.0/8", "10.1.0.0/16", "10.1.2.0/24", "10.1.2.3/32", "192.168.0.0/16", "0.0.0.0/0", "2001:db8::/32", "2001:db8:1::/48", "::/0", "::1/128", "10.1.2.3/8"}
var c19Malformed = []string{"allow", "permit all", "deny 10.0.0.0", "allow 10.0.0.0/33"}
var c19Addrs = []string{"10.0.0.5", "10.0.1.7", "2001:db8::", "10.0.0.0", "10.255.255.255", "11.0.0.0", "9.255.255.255", "10.1.2.3", "10.1.2.4", "10.1.3.0", "192.168.1.1", "127.0.0.1", "::1", "2001:db8::1", "2001:db8:1::1", "2001:db9::1", "::ffff:10.1.2.3", "::ffff:11.0.0.1", "fe80::1"}
var c19AddrsThorough = append(append([]string{}, c19Addrs...), "10.1.255.255", "10.2.0.0", "192.167.255.255", "192.169.0.0", "0.0.0.0", "255.255.255.255", "2001:db8:1:ffff:ffff:ffff:ffff:ffff", "2001:db8:2::", "::", "::ffff:192.168.0.1")

func c19Pool(tier string) (rules, addrs []string) {
	nets := c19Nets
	addrs = c19Addrs
	if tier == "thorough" {
		nets = c19NetsThorough
		addrs = c19AddrsThorough
	}
	rules = []string{"allow all", "deny all"}
	for _, n := range nets {
		rules = append(rules, "allow "+n, "deny "+n)
	}
	rules = append(rules, c19Malformed...)
	return
}

// c19Ref is the independent reference evaluator: returns true if access is granted.
func c19Ref(rules []string, addr string) bool {
	ip, err := netip.ParseAddr(addr)
	if err != nil {
		panic(err)
	}
	ip = ip.Unmap()
	for _, r := range rules {
		sp := strings.IndexByte(r, ' ')
		if sp < 0 {
			return false // malformed rule reached
		}
		action, who := r[:sp], r[sp+1:]
		if action != "allow" && action != "deny" {
			return false
		}
		if who != "all" {
			pfx, err := netip.ParsePrefix(who)
			if err != nil {
				return false
			}
			pfx = pfx.Masked()
			if pfx.Addr().Is4() != ip.Is4() {
				continue
			}
			// own bit-prefix comparison
			a, b := ip.AsSlice(), pfx.Addr().AsSlice()
			match := true
			for bit := 0; bit < pfx.Bits(); bit++ {
				if (a[bit/8]>>(7-bit%8))&1 != (b[bit/8]>>(7-bit%8))&1 {
					match = false
					break
				}
			}
			if !match {
				continue
			}
		}
		return action == "allow"
	}
	return true
}

const c19Secret = "SECRET-c19-module-data"

func c19Handshake(modDir string, rules []string, addr string) (out string, err error) {
	srv, err := rsyncd.NewServer([]rsyncd.Module{{Name: "mod", Path: modDir, ACL: rules}},
		rsyncd.DontRestrict(), rsyncd.WithStderr(discard{}), rsyncd.WithLogger(nullLogger{}))
	if err != nil {
		return "", err
	}
	return c19Ask(srv, "mod", addr)
}

// c19Ask requests a complete listing of one module of srv as client addr.
func c19Ask(srv *rsyncd.Server, module, addr string) (out string, err error) {
	name := addr + ":4711"
	if strings.Contains(addr, ":") {
		name = "[" + addr + "]:4711"
	}
	var in bytes.Buffer
	in.WriteString("@RSYNCD: 27\n" + module + "\n--server\n--sender\n-r\n.\n" + module + "/\n\n")
	in.Write([]byte{0, 0, 0, 0})                                                 // empty filter list
	in.Write([]byte{255, 255, 255, 255, 255, 255, 255, 255, 255, 255, 255, 255}) // -1 -1 -1: end of phases and goodbye
	var outb bytes.Buffer
	conn := rsyncd.NewConnection(&in, &outb, name)
	_ = srv.HandleDaemonConn(context.Background(), conn)
	return outb.String(), nil
}

// c19BuildNeighbours: one server with three modules whose names are prefixes
// of one another ("mo", "mod", "module"), each with its own rule list; the
// verdict for a module must follow that module's list only, in whatever order
// the modules are configured and whichever was asked before on the same server.
func c19BuildNeighbours(tier string) core.Source {
	rules, addrs := c19Pool(tier)
	lists := [][]string{nil}
	for _, r := range rules {
		lists = append(lists, []string{r})
	}
	lists = append(lists, []string{"allow 10.1.2.0/24", "deny all"}, []string{"deny 10.1.2.3/32", "allow 10.0.0.0/8", "deny all"})
	type cs struct{ x, y int }
	var cases []cs
	for x := range lists {
		for y := range lists {
			cases = append(cases, cs{x, y})
		}
	}
	return core.FuncSource{N: len(cases), F: func(i int) core.Result {
		c := cases[i]
		z := (c.x + 2*c.y + 1) % len(lists)
		acl := map[string][]string{"mo": lists[c.x], "mod": lists[c.y], "module": lists[z]}
		res := core.Result{Case: fmt.Sprintf("three modules on one server: mo=%q mod=%q module=%q", acl["mo"], acl["mod"], acl["module"]), Counters: map[string]int64{}}
		dir := workDir()
		defer cleanup(dir)
		order := [][]string{{"mo", "mod", "module"}, {"module", "mod", "mo"}, {"mod", "module", "mo"}}[i%3]
		var mods []rsyncd.Module
		for _, n := range order {
			d := filepath.Join(dir, n)
			os.MkdirAll(d, 0o755)
			os.WriteFile(filepath.Join(d, "data-of-"+n), []byte(n), 0o644)
			mods = append(mods, rsyncd.Module{Name: n, Path: d, ACL: acl[n]})
		}
		srv, err := rsyncd.NewServer(mods, rsyncd.DontRestrict(), rsyncd.WithStderr(discard{}), rsyncd.WithLogger(nullLogger{}))
		if err != nil {
			res.Inconcl = err.Error()
			return res
		}
		grants, denies := 0, 0
		for ai, addr := range addrs {
			// the order in which one server is asked rotates with the address
			for k := 0; k < 3; k++ {
				n := []string{"mo", "mod", "module"}[(k+ai)%3]
				out, err := c19Ask(srv, n, addr)
				res.Counters["states"]++
				res.Counters["transitions"]++
				res.Counters["traces_validated_against_impl"]++
				if err != nil {
					res.Inconcl = err.Error()
					return res
				}
				want := c19Ref(acl[n], addr)
				rest := strings.TrimPrefix(out, "@RSYNCD: 27\n")
				granted := strings.HasPrefix(rest, "@RSYNCD: OK\n")
				if granted != want {
					sym := "granted_but_must_refuse"
					if want {
						sym = "refused_but_must_grant"
					}
					res.Fail = core.Fail(sym, fmt.Sprintf("module=%s addr=%s acl=%q (neighbours: %s) reply=%q", n, addr, acl[n], res.Case, trunc(rest, 120)), "part", "neighbours")
					return res
				}
				for _, other := range []string{"mo", "mod", "module"} {
					if other != n && strings.Contains(rest, "data-of-"+other+"\x00") || (granted && !strings.Contains(rest, "data-of-"+n)) {
						res.Fail = core.Fail("wrong_module_served", fmt.Sprintf("module=%s addr=%s reply=%q", n, addr, trunc(rest, 200)), "part", "neighbours")
						return res
					}
				}
				if granted {
					grants++
				} else {
					denies++
				}
			}
		}
		res.Outcome = fmt.Sprintf("grants>0=%v/denies>0=%v", grants > 0, denies > 0)
		res.Nontrivial = grants > 0 && denies > 0
		return res
	}}
}

func init() {
	core.Register(&core.Prop{
		ID:    "C19",
		Level: "model_checking",
		Rule: "every ACL rule list of length 0..3 over the rule pool (allow/deny x {all, nested and disjoint IPv4/IPv6 prefixes} + 4 malformed rules), each evaluated by a real daemon handshake + listing request for every address of the address pool; " +
			"neighbours: one server with three modules mo, mod, module (configured in 3 orders), every pair of rule lists of length <=1 (+2 longer ones) on the first two and a rotating third, every module asked from every address in rotating order on the same server: each verdict must follow that module's own list and only its own data may be served. a case (one rule list) is non-trivial when it has at least one rule and both grant and refusal occur among its addresses or a malformed rule is reached; states = (rule list, address) pairs, transitions = handshakes",
		Assum: []string{"reference evaluator (netip based bit-prefix comparison) is correct", "connection name is host:port as produced by net.Conn.RemoteAddr"},
		Parts: func(tier string) []core.Part {
			return []core.Part{{Name: "neighbours", Build: c19BuildNeighbours}, {Name: "lists", Build: func(tier string) core.Source {
				rules, addrs := c19Pool(tier)
				var lists [][]string
				lists = append(lists, nil)
				for _, a := range rules {
					lists = append(lists, []string{a})
				}
				for _, a := range rules {
					for _, b := range rules {
						lists = append(lists, []string{a, b})
					}
				}
				for _, a := range rules {
					for _, b := range rules {
						for _, c := range rules {
							lists = append(lists, []string{a, b, c})
						}
					}
				}
				modDir := filepath.Join(core.Scratch(), fmt.Sprintf("c19-mod-%d", os.Getpid()))
				os.MkdirAll(modDir, 0o755)
				os.WriteFile(filepath.Join(modDir, c19Secret), []byte(c19Secret+"-content"), 0o644)
				return core.FuncSource{N: len(lists), F: func(i int) core.Result {
					rl := lists[i]
					res := core.Result{Case: fmt.Sprintf("acl=%q", rl), Counters: map[string]int64{}}
					grants, denies := 0, 0
					for _, addr := range addrs {
						want := c19Ref(rl, addr)
						out, err := c19Handshake(modDir, rl, addr)
						res.Counters["states"]++
						res.Counters["transitions"]++
						res.Counters["traces_validated_against_impl"]++
						if err != nil {
							res.Inconcl = err.Error()
							continue
						}
						const greet = "@RSYNCD: 27\n"
						if !strings.HasPrefix(out, greet) {
							res.Fail = core.Fail("bad_greeting", fmt.Sprintf("addr=%s out=%q", addr, out))
							return res
						}
						rest := out[len(greet):]
						granted := strings.HasPrefix(rest, "@RSYNCD: OK\n")
						if granted {
							grants++
						} else {
							denies++
						}
						if granted != want {
							sym := "granted_but_must_refuse"
							if want {
								sym = "refused_but_must_grant"
							}
							res.Fail = core.Fail(sym, fmt.Sprintf("addr=%s acl=%q reply=%q", addr, rl, trunc(rest, 120)))
							return res
						}
						if granted {
							if !strings.Contains(rest, c19Secret) {
								res.Fail = core.Fail("granted_but_no_data", fmt.Sprintf("addr=%s acl=%q reply=%q", addr, rl, trunc(rest, 200)))
								return res
							}
						} else {
							// exactly one @ERROR line and no further bytes
							if !strings.HasPrefix(rest, "@ERROR") || strings.Count(rest, "\n") != 1 || !strings.HasSuffix(rest, "\n") || strings.Contains(rest, c19Secret) {
								res.Fail = core.Fail("refusal_not_clean", fmt.Sprintf("addr=%s acl=%q reply=%q", addr, rl, trunc(rest, 200)))
								return res
							}
						}
					}
					res.Outcome = fmt.Sprintf("grants=%d/denies=%d", grants, denies)
					res.Nontrivial = len(rl) > 0 && grants > 0 && denies > 0
					return res
				}}
			}}}
		},
	})
}
