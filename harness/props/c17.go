package props

import (
	"bytes"
	"context"
	"fmt"
	"io"
	"os"
	"path/filepath"
	"strings"

	"github.com/gokrazy/rsync/rsyncclient"
	"github.com/gokrazy/rsync/verifharness/core"
	"github.com/gokrazy/rsync/verifharness/drive"
	"github.com/gokrazy/rsync/verifharness/peer"
	rp "github.com/gokrazy/rsync/verifharness/refproto"
	"github.com/gokrazy/rsync/verifharness/sched"
	tm "github.com/gokrazy/rsync/verifharness/treemodel"
)

// C17 — multiplex framing is transparent.

// framePolicy says how the scripted server cuts its payload into frames.
type framePolicy struct {
	size     int    // uniform data frame size (0: one frame per burst)
	cutAt    int    // force a frame boundary at this absolute payload offset (-1: none)
	insertAt int    // absolute payload offset before which extra frames are inserted (-1: none)
	nInfo    int    // number of info frames inserted there
	nEmpty   int    // number of empty data frames inserted there
	errorMsg string // if set: an error frame is sent at insertAt and the connection is closed
}

func (p framePolicy) String() string {
	return fmt.Sprintf("size=%d cutAt=%d insertAt=%d info=%d empty=%d error=%q", p.size, p.cutAt, p.insertAt, p.nInfo, p.nEmpty, p.errorMsg)
}

type framer struct {
	w      io.Writer
	pol    framePolicy
	off    int
	buf    []byte
	closed bool
	onErr  func()
	frames int
	maxLen int
}

func (f *framer) Write(p []byte) (int, error) {
	if f.closed {
		return 0, io.ErrClosedPipe
	}
	f.buf = append(f.buf, p...)
	return len(p), nil
}

func (f *framer) emit(tag int, p []byte) error {
	f.frames++
	if len(p) > f.maxLen {
		f.maxLen = len(p)
	}
	return rp.WriteFrame(f.w, tag, p)
}

// Flush emits the pending burst.
func (f *framer) Flush() error {
	for len(f.buf) > 0 || (f.pol.insertAt == f.off && f.pol.insertAt >= 0) {
		if f.pol.insertAt == f.off && f.pol.insertAt >= 0 {
			f.pol.insertAt = -1
			for i := 0; i < f.pol.nEmpty; i++ {
				if err := f.emit(rp.TagData, nil); err != nil {
					return err
				}
			}
			for i := 0; i < f.pol.nInfo; i++ {
				if err := f.emit(rp.TagInfo, []byte(fmt.Sprintf("info message %d\n", i))); err != nil {
					return err
				}
			}
			if f.pol.errorMsg != "" {
				f.emit(rp.TagError, []byte(f.pol.errorMsg))
				f.closed = true
				f.buf = nil
				if f.onErr != nil {
					f.onErr()
				}
				return io.ErrClosedPipe
			}
			continue
		}
		n := len(f.buf)
		if f.pol.size > 0 && n > f.pol.size {
			n = f.pol.size
		}
		if f.pol.size == 0 && n > 65536 {
			n = 65536 // default framing: one frame per burst, at most 64 KiB
		}
		for _, b := range []int{f.pol.cutAt, f.pol.insertAt} {
			if b > f.off && b < f.off+n {
				n = b - f.off
			}
		}
		if err := f.emit(rp.TagData, f.buf[:n]); err != nil {
			return err
		}
		f.buf = f.buf[n:]
		f.off += n
	}
	return nil
}

type flushingReader struct {
	r io.Reader
	f *framer
}

func (fr flushingReader) Read(p []byte) (int, error) {
	if err := fr.f.Flush(); err != nil {
		return 0, err
	}
	return fr.r.Read(p)
}

// c17Serve is the scripted server (sender role, command mode) with a framing policy.
func c17Serve(conn io.ReadWriter, s *peer.SenderScript, pol framePolicy, closeAll func()) (*framer, error) {
	r0 := &rp.R{Rd: conn}
	_ = r0.Int()
	if r0.Err != nil {
		return nil, r0.Err
	}
	var w rp.W
	w.Int(rp.ProtocolVersn)
	w.Int(s.Seed)
	if _, err := conn.Write(w.Bytes()); err != nil {
		return nil, err
	}
	f := &framer{w: conn, pol: pol, onErr: closeAll}
	// like the real sender, read the client's filter list before producing any payload
	for {
		n := r0.Int()
		if r0.Err != nil {
			return f, r0.Err
		}
		if n == 0 {
			break
		}
		r0.Bytes(int(n))
	}
	r := &rp.R{Rd: flushingReader{conn, f}}
	s.Stats = true
	s.BeforeGoodbye = func() { f.Flush() }
	s.HalfClose = true
	_, err := peer.RunSender(r, f, s)
	f.Flush()
	return f, err
}

type c17Shape struct {
	name   string
	list   bool // listing only (no destination)
	script func() *peer.SenderScript
	dst    tm.Tree
	want   tm.Tree
	// totalSize, if non-zero: the total the scripted sender's statistics carry (judged against the client's result)
	totalSize int64
}

func c17Shapes(tier string) []c17Shape {
	mk := func(files map[string][]byte, dirs []string) (func() *peer.SenderScript, tm.Tree) {
		var want tm.Tree
		build := func() *peer.SenderScript {
			list := &rp.FList{}
			list.Entries = append(list.Entries, rp.FEntry{Name: []byte("."), Len: 4096, Mtime: tm.Past, Mode: rp.SIFDIR | 0o755, TopDir: true})
			for _, d := range dirs {
				list.Entries = append(list.Entries, rp.FEntry{Name: []byte(d), Len: 4096, Mtime: tm.Past, Mode: rp.SIFDIR | 0o755})
			}
			for n, b := range files {
				list.Entries = append(list.Entries, rp.FEntry{Name: []byte(n), Len: int64(len(b)), Mtime: tm.Past, Mode: rp.SIFREG | 0o644})
			}
			list.Entries = rp.SortedIndex(list.Entries)
			data := map[int32][]byte{}
			for k, e := range list.Entries {
				if b, ok := files[string(e.Name)]; ok {
					data[int32(k)] = b
				}
			}
			return &peer.SenderScript{List: list, Seed: 0x17, Data: data}
		}
		for _, d := range dirs {
			want = append(want, tm.D(d, 0o755, tm.Past))
		}
		for n, b := range files {
			want = append(want, tm.File(n, b, 0o644, tm.Past))
		}
		want.Sort()
		return build, want
	}
	smallFiles := map[string][]byte{"a": genData(famText, 60, 1), "d/b": genData(famHash, 150, 2), "empty": {}}
	sb, sw := mk(smallFiles, []string{"d"})
	shapes := []c17Shape{
		{name: "listing", list: true, script: sb},
		{name: "small-tree", script: sb, want: sw, dst: tm.Tree{tm.File("a", genData(famText, 61, 9), 0o644, tm.Past-5)}},
	}
	bigFiles := map[string][]byte{"big": genData(famHash, 600*1024, 3)}
	bb, bw := mk(bigFiles, nil)
	shapes = append(shapes, c17Shape{name: "big-file", script: bb, want: bw})
	// a listing whose entries and statistics need the 64-bit integer encoding (marker + 8 bytes)
	huge := func() *peer.SenderScript {
		list := &rp.FList{Entries: []rp.FEntry{
			{Name: []byte("."), Len: 4096, Mtime: tm.Past, Mode: rp.SIFDIR | 0o755, TopDir: true},
			{Name: []byte("huge-3g"), Len: 3 << 30, Mtime: tm.Past, Mode: rp.SIFREG | 0o644},
			{Name: []byte("huge-5g"), Len: 5<<30 + 7, Mtime: tm.Past, Mode: rp.SIFREG | 0o644},
			{Name: []byte("small"), Len: 11, Mtime: tm.Past, Mode: rp.SIFREG | 0o644},
		}}
		return &peer.SenderScript{List: list, Seed: 0x17, Data: map[int32][]byte{}, StatsSize: 8<<30 + 4096 + 18}
	}
	shapes = append(shapes, c17Shape{name: "listing-64bit", list: true, script: huge, totalSize: 8<<30 + 4096 + 18})
	return shapes
}

// c17LastSize: "total size" the client reported for the last session (worker-local), -1 if none.
var c17LastSize int64

// c17Session runs the real client against the scripted server with the given framing.
func c17Session(sh c17Shape, pol framePolicy) (clientErr error, after tm.Tree, listing string, fr *framer, serveErr error) {
	dir := workDir()
	defer cleanup(dir)
	dest := filepath.Join(dir, "dst")
	if !sh.list {
		os.MkdirAll(dest, 0o755)
		sh.dst.Materialise(dest)
	}
	c2s, s2c := drive.NewPipe(false), drive.NewPipe(false)
	var stdout bytes.Buffer
	client, err := rsyncclient.New([]string{"-rt"}, rsyncclient.DontRestrict(), rsyncclient.WithStderr(io.Discard))
	if err != nil {
		return err, nil, "", nil, nil
	}
	done := make(chan struct{})
	go func() {
		defer close(done)
		fr, serveErr = c17Serve(&drive.RW{Reader: c2s, Writer: s2c}, sh.script(), pol, func() { s2c.Close() })
		s2c.Close()
	}()
	paths := []string{dest}
	if sh.list {
		paths = []string{""}
	}
	// the listing goes to the client's stdout: capture it through os.Stdout replacement is not possible
	// for the library client, so the listing shape is judged by success/failure and the absence of any file.
	_ = stdout
	var result *rsyncclient.Result
	result, clientErr = client.Run(context.Background(), &drive.RW{Reader: s2c, Writer: c2s}, paths)
	c17LastSize = -1
	if result != nil && result.Stats != nil {
		c17LastSize = result.Stats.Size
	}
	c2s.Close()
	<-done
	if !sh.list {
		after, _ = tm.Snapshot(dest, false)
	}
	return
}

func c17Judge(sh c17Shape, pol framePolicy, clientErr error, after tm.Tree, fr *framer) *core.Failure {
	big := fr != nil && fr.maxLen > 256*1024
	ff := []string{"shape", sh.name, "frame_gt_256k", fmt.Sprint(big), "has_error_frame", fmt.Sprint(pol.errorMsg != ""), "info_frames", fmt.Sprint(pol.nInfo > 0), "empty_frames", fmt.Sprint(pol.nEmpty > 0)}
	if pol.errorMsg != "" {
		if clientErr == nil {
			return core.Fail("error_frame_ignored", fmt.Sprintf("%s: the server sent an error frame but the client reported success", pol), ff...)
		}
		if !strings.Contains(clientErr.Error(), strings.TrimSpace(pol.errorMsg)) {
			return core.Fail("error_message_lost", fmt.Sprintf("%s: client error %q does not carry the server's message", pol, clientErr), ff...)
		}
		return nil
	}
	if clientErr != nil {
		return core.Fail("result_depends_on_framing", fmt.Sprintf("%s: client failed: %v (largest frame %d bytes)", pol, clientErr, fr.maxLen), ff...)
	}
	if sh.totalSize != 0 && c17LastSize != sh.totalSize {
		return core.Fail("result_depends_on_framing", fmt.Sprintf("%s: the client reports a total size of %d, the server's statistics say %d", pol, c17LastSize, sh.totalSize), ff...)
	}
	if !sh.list {
		if d := tm.Diff(sh.want, after, tm.Fields{}); len(d) > 0 {
			return core.Fail("result_depends_on_framing", fmt.Sprintf("%s: destination differs: %s", pol, trunc(strings.Join(d, ";"), 300)), ff...)
		}
	}
	return nil
}

func c17PayloadLen(sh c17Shape) int {
	_, _, _, fr, _ := c17Session(sh, framePolicy{cutAt: -1, insertAt: -1})
	if fr == nil {
		return 0
	}
	return fr.off
}

func c17BuildReframe(tier string) core.Source {
	drive.Quiet()
	shapes := c17Shapes(tier)
	type cs struct {
		shape int
		pols  []framePolicy
		what  string
	}
	var cases []cs
	none := framePolicy{cutAt: -1, insertAt: -1}
	for _, si := range []int{0, 1, 3} {
		sh := shapes[si]
		total := c17PayloadLen(sh)
		chunk := 32
		for lo := 0; lo <= total; lo += chunk {
			var split, uni, info, infoRun, empty, errs []framePolicy
			for q := lo; q < lo+chunk && q <= total; q++ {
				p := none
				p.cutAt = q
				split = append(split, p)
				if q >= 1 {
					u := none
					u.size = q
					uni = append(uni, u)
				}
				i1 := none
				i1.insertAt, i1.nInfo = q, 1
				info = append(info, i1)
				for _, n := range []int{100, 1000} {
					ir := none
					ir.insertAt, ir.nInfo = q, n
					if n == 1000 && q%8 != 0 && tier != "thorough" {
						continue
					}
					infoRun = append(infoRun, ir)
				}
				e := none
				e.insertAt, e.nEmpty = q, 2
				empty = append(empty, e)
				if q < total { // after the last payload byte the client has nothing left to read
					er := none
					er.insertAt, er.errorMsg = q, fmt.Sprintf("scripted failure at offset %d\n", q)
					errs = append(errs, er)
				}
			}
			for _, g := range []struct {
				n string
				p []framePolicy
			}{{"split-at", split}, {"uniform-size", uni}, {"info-frame-at", info}, {"info-run-at", infoRun}, {"empty-frames-at", empty}, {"error-frame-at", errs}} {
				if len(g.p) > 0 {
					cases = append(cases, cs{si, g.p, fmt.Sprintf("%s %d..%d of %d payload bytes", g.n, lo, min(lo+chunk-1, total), total)})
				}
			}
		}
	}
	// big file: frame sizes around the 256 KiB buffer, and 1-byte frames
	for _, sz := range []int{1, 7, 4096, 262143, 262144, 262145, 300000, 1<<24 - 1} {
		p := none
		p.size = sz
		cases = append(cases, cs{2, []framePolicy{p}, fmt.Sprintf("uniform-size %d", sz)})
	}
	for _, q := range []int{0, 1, 100, 262144, 300000, 600*1024 - 1} {
		p := none
		p.insertAt, p.nInfo = q, 3
		cases = append(cases, cs{2, []framePolicy{p}, fmt.Sprintf("info frames at %d", q)})
		e := none
		e.insertAt, e.errorMsg = q, "disk on fire\n"
		cases = append(cases, cs{2, []framePolicy{e}, fmt.Sprintf("error frame at %d", q)})
	}
	return core.FuncSource{N: len(cases), F: func(i int) core.Result {
		c := cases[i]
		sh := shapes[c.shape]
		res := core.Result{Case: fmt.Sprintf("shape=%s %s", sh.name, c.what)}
		rejected := 0
		for _, pol := range c.pols {
			cerr, after, _, fr, _ := c17Session(sh, pol)
			cnt(&res, "transitions", 1)
			if f := c17Judge(sh, pol, cerr, after, fr); f != nil {
				res.Fail = f
				return res
			}
			if pol.errorMsg != "" {
				rejected++
			}
		}
		cnt(&res, "states", res.Counters["transitions"])
		cnt(&res, "traces_validated_against_impl", res.Counters["transitions"])
		res.Nontrivial = true
		res.Outcome = fmt.Sprintf("ok/%s", strings.Fields(c.what)[0])
		return res
	}}
}

// c17BuildServerFrames: every frame the real server emits is well formed,
// within the limit, and the payload decodes to the reference stream.
func c17BuildServerFrames(tier string) core.Source {
	drive.Quiet()
	type cs struct {
		arr  string
		tree string
		args string
	}
	var cases []cs
	for _, arr := range []string{drive.DaemonPull, drive.LibPull} {
		for _, tr := range []string{"tiny", "many-tiny", "huge-literal", "huge-sum-list", "literal-over-basis"} {
			for _, a := range []string{"-rt", "-rtc", "-a"} {
				cases = append(cases, cs{arr, tr, a})
			}
		}
	}
	trees := c18Trees()
	return core.FuncSource{N: len(cases), F: func(i int) core.Result {
		c := cases[i]
		res := core.Result{Case: fmt.Sprintf("frames emitted by the real server: %s %s tree=%s", c.arr, c.args, c.tree)}
		t := trees[c.tree]
		sc := &syncCase{Arr: c.arr, Args: []string{c.args}, Src: t.src, Dst: t.dst, Form: "contents", Rec: true}
		sr, err := sc.run(true)
		defer cleanup(sr.Dir)
		if err != nil {
			res.Inconcl = err.Error()
			return res
		}
		cnt(&res, "transitions", 1)
		if !sr.Out.OK() {
			res.Fail = core.Fail("session_failed", sr.Out.ErrString())
			return res
		}
		e := effective([]string{c.args})
		tap, terr := peer.ParsePull(sr.Out.S2C, rp.ListOpts{UID: e.o, GID: e.g, Devices: e.devices, Specials: e.specials, Links: e.l, Checksum: e.c}, c.arr == drive.DaemonPull, false)
		if terr != nil {
			res.Fail = core.Fail("server_stream_malformed", terr.Error())
			return res
		}
		cnt(&res, "states", int64(len(tap.Frames)))
		cnt(&res, "traces_validated_against_impl", 1)
		for k, f := range tap.Frames {
			if f.Tag != rp.TagData && f.Tag != rp.TagInfo && f.Tag != rp.TagError {
				res.Fail = core.Fail("frame_malformed", fmt.Sprintf("frame %d has tag %d", k, f.Tag))
				return res
			}
			if len(f.Payload) > 256*1024 {
				res.Fail = core.Fail("frame_too_large", fmt.Sprintf("frame %d has %d bytes: more than the implementation's own reader accepts", k, len(f.Payload)))
				return res
			}
		}
		if tap.Rest != 0 || tap.Phases != 2 {
			res.Fail = core.Fail("server_stream_malformed", fmt.Sprintf("undecoded trailing payload %d bytes, phases %d", tap.Rest, tap.Phases))
			return res
		}
		// payload carried unchanged: every response reconstructs the source file
		for _, r := range tap.Responses {
			if int(r.Idx) >= len(tap.Sorted) {
				res.Fail = core.Fail("server_stream_malformed", fmt.Sprintf("response for index %d", r.Idx))
				return res
			}
			name := string(tap.Sorted[r.Idx].Name)
			s := t.src.Find(name)
			var basis []byte
			if b := t.dst.Find(name); b != nil {
				basis = b.Data
			}
			den, derr := rp.Denote(r.Toks, basis, r.Head)
			if s == nil || derr != nil || !bytes.Equal(den, s.Data) || r.Trailer != rp.FileSum(tap.Seed, s.Data) {
				res.Fail = core.Fail("payload_altered", fmt.Sprintf("response for %q does not reconstruct the source file (err %v)", name, derr))
				return res
			}
		}
		res.Nontrivial = len(tap.Frames) > 3
		res.Outcome = "ok"
		return res
	}}
}

func init() {
	core.Register(&core.Prop{
		ID:    "C17",
		Level: "model_checking",
		Rule: "reframe: a scripted protocol-conforming server feeds the real client the same payload cut into frames in every way of these families: a forced frame boundary at every payload offset; uniform frames of every size 1..N; one info frame, runs of 100/1000 info frames, two empty data frames, and an error frame (followed by close) inserted at every payload offset — for a listing-only session and a small-tree session; for a 600 KiB file: uniform sizes {1,7,4096,262143,262144,262145,300000,2^24-1} and info/error frames at selected offsets. Oracle: same destination as with the plain framing; an error frame makes the client fail with the server's message. server-frames: all frames recorded from the real server in 24 real sessions are well formed (tag, length <= 256 KiB) and their payload decodes completely into a file list and responses that reconstruct the source files. " +
			"states/transitions = sessions; non-trivial = every re-framed session",
		Assum: []string{"the payload producer is the reference sender (refproto); framing of a live server cannot be merged across its wait points, so merged frames only occur within one burst"},
		Parts: func(tier string) []core.Part {
			return []core.Part{{Name: "reframe", Build: c17BuildReframe}, {Name: "server-frames", Build: c17BuildServerFrames}, {Name: "error-sched", Build: c17BuildErrorSched}}
		},
	})
}

// c17BuildErrorSched: an error frame followed by the server's exit, under the
// controlled scheduler: whichever of the client's goroutines notices the
// failure first, the client must fail and its error must carry the server's
// message.
func c17BuildErrorSched(tier string) core.Source {
	drive.Quiet()
	sh := c17Shapes(tier)[1]
	total := c17PayloadLen(sh)
	type cs struct {
		at       int
		c2s, s2c int
	}
	var cases []cs
	step := 16
	if tier == "thorough" {
		step = 4
	}
	for at := 0; at < total; at += step {
		for _, cp := range [][2]int{{sched.Inf, sched.Inf}, {7, 7}, {0, 0}, {0, sched.Inf}, {sched.Inf, 0}} {
			cases = append(cases, cs{at, cp[0], cp[1]})
		}
	}
	return core.FuncSource{N: len(cases), F: func(i int) core.Result {
		c := cases[i]
		msg := fmt.Sprintf("scripted failure at offset %d", c.at)
		res := core.Result{Case: fmt.Sprintf("error frame at payload offset %d then server exit, capacities %s/%s, schedules with <=1 deviation", c.at, capName(c.c2s), capName(c.s2c))}
		sc := &sched.Scenario{Name: res.Case, CapC2S: c.c2s, CapS2C: c.s2c,
			Start: func(w *sched.World) func(bool) string {
				dir := workDir()
				dest := filepath.Join(dir, "dst")
				sh.dst.Materialise(dest)
				var cerr error
				client, _ := rsyncclient.New([]string{"-rt"}, rsyncclient.DontRestrict(), rsyncclient.WithStderr(io.Discard))
				w.Go(func() {
					_, cerr = client.Run(context.Background(), w.Client(), []string{dest})
					w.Client().Close()
				})
				w.Go(func() {
					pol := framePolicy{cutAt: -1, insertAt: c.at, errorMsg: msg + "\n"}
					c17Serve(w.Server(), sh.script(), pol, func() {})
					w.Server().Close()
				})
				return func(fin bool) string {
					cleanup(dir)
					if cerr == nil {
						return "client reported success"
					}
					if strings.Contains(cerr.Error(), msg) {
						return "client failed with the server's message"
					}
					return "client failed WITHOUT the server's message: " + cerr.Error()
				}
			}}
		st := sched.Explore(core.T, sc, 1, 5000, func(x *sched.Exec) string {
			if x.Outcome != "client failed with the server's message" {
				return x.Outcome
			}
			return ""
		})
		cnt(&res, "executions", int64(st.Executions))
		cnt(&res, "transitions", st.Points)
		cnt(&res, "states", st.Points)
		cnt(&res, "traces_validated_against_impl", int64(st.Executions))
		if st.FirstBad != nil {
			sym := "error_message_lost"
			if st.FirstBad.Deadlock {
				sym = "deadlock"
			} else if strings.Contains(st.FirstBadWhy, "success") {
				sym = "error_frame_ignored"
			}
			n := len(st.FirstBad.Descr)
			res.Fail = core.Fail(sym, fmt.Sprintf("%s | choices=%s | last steps %v", st.FirstBadWhy, compact(st.FirstBad.Choices), st.FirstBad.Descr[max(0, n-6):]), "part", "error-sched", "c2s", capName(c.c2s), "s2c", capName(c.s2c), "deviation_free", fmt.Sprint(len(compact(st.FirstBad.Choices)) > 0 && strings.HasPrefix(compact(st.FirstBad.Choices), "[]")))
			return res
		}
		res.Nontrivial = st.Executions > 1
		res.Outcome = "ok/error-sched"
		return res
	}}
}
