package props

import (
	"bytes"
	"context"
	"crypto/ecdsa"
	"crypto/ed25519"
	"crypto/elliptic"
	"crypto/rand"
	"crypto/rsa"
	"fmt"
	"io"
	"net"
	"os"
	"path/filepath"
	"regexp"
	"strings"
	"sync"
	"time"

	"github.com/gokrazy/rsync/internal/anonssh"
	"github.com/gokrazy/rsync/internal/maincmd"
	"github.com/gokrazy/rsync/internal/restrict"
	"github.com/gokrazy/rsync/internal/rsyncdconfig"
	"github.com/gokrazy/rsync/internal/rsyncos"
	"github.com/gokrazy/rsync/rsyncd"
	"github.com/gokrazy/rsync/verifharness/core"
	"github.com/gokrazy/rsync/verifharness/drive"
	tm "github.com/gokrazy/rsync/verifharness/treemodel"
	"github.com/landlock-lsm/go-landlock/landlock"
	"golang.org/x/crypto/ssh"
)

// C20 — SSH listeners admit only authorised keys and expose only the rsync daemon.

type c20Keys struct {
	signers []ssh.Signer
	lines   []string // authorized_keys lines
}

func c20GenKeys() (*c20Keys, error) {
	k := &c20Keys{}
	add := func(priv any, err error) error {
		if err != nil {
			return err
		}
		s, err := ssh.NewSignerFromKey(priv)
		if err != nil {
			return err
		}
		k.signers = append(k.signers, s)
		k.lines = append(k.lines, strings.TrimSpace(string(ssh.MarshalAuthorizedKey(s.PublicKey()))))
		return nil
	}
	_, e1, err := ed25519.GenerateKey(rand.Reader)
	if err := add(e1, err); err != nil {
		return nil, err
	}
	_, e2, err := ed25519.GenerateKey(rand.Reader)
	if err := add(e2, err); err != nil {
		return nil, err
	}
	ec, err := ecdsa.GenerateKey(elliptic.P256(), rand.Reader)
	if err := add(ec, err); err != nil {
		return nil, err
	}
	rk, err := rsa.GenerateKey(rand.Reader, 2048)
	if err := add(rk, err); err != nil {
		return nil, err
	}
	_, e5, err := ed25519.GenerateKey(rand.Reader)
	if err := add(e5, err); err != nil { // never listed
		return nil, err
	}
	return k, nil
}

func c20Dial(addr string, signer ssh.Signer) (*ssh.Client, error) {
	cfg := &ssh.ClientConfig{User: "rsync", HostKeyCallback: ssh.InsecureIgnoreHostKey(), Timeout: 20 * time.Second}
	if signer != nil {
		cfg.Auth = []ssh.AuthMethod{ssh.PublicKeys(signer)}
	}
	return ssh.Dial("tcp", addr, cfg)
}

type c20Log struct {
	mu sync.Mutex
	b  bytes.Buffer
}

func (l *c20Log) Write(p []byte) (int, error) {
	l.mu.Lock()
	defer l.mu.Unlock()
	if l.b.Len() < 1<<20 {
		l.b.Write(p)
	}
	return len(p), nil
}
func (l *c20Log) String() string { l.mu.Lock(); defer l.mu.Unlock(); return l.b.String() }

// ---- part auth: which keys complete the handshake

func c20BuildAuth(tier string) core.Source {
	drive.Quiet()
	var keys *c20Keys
	layouts := []string{"plain", "comments-options", "crlf"}
	type cs struct {
		subset int // bitmask over the 4 listable keys; -1: anonymous listener
		layout int
	}
	var cases []cs
	for sub := 0; sub < 16; sub++ {
		for l := range layouts {
			cases = append(cases, cs{sub, l})
		}
	}
	cases = append(cases, cs{-1, 0})
	return core.FuncSource{N: len(cases), F: func(i int) core.Result {
		c := cases[i]
		res := core.Result{Case: fmt.Sprintf("authorized_keys subset=%04b layout=%s (subset -1 = anonymous listener), every client key incl. an unlisted one and no key", c.subset&15, layouts[c.layout])}
		if c.subset < 0 {
			res.Case = "anonymous listener, every client key"
		}
		if keys == nil {
			var err error
			if keys, err = c20GenKeys(); err != nil {
				res.Inconcl = err.Error()
				return res
			}
		}
		dir := workDir()
		defer cleanup(dir)
		var file strings.Builder
		nl := "\n"
		if c.layout == 2 {
			nl = "\r\n"
		}
		if c.layout == 1 {
			file.WriteString("# authorized keys for the backup host" + nl + nl)
		}
		for k := 0; k < 4; k++ {
			if c.subset >= 0 && c.subset&(1<<k) != 0 {
				line := keys.lines[k]
				if c.layout == 1 {
					line = `no-port-forwarding,command="rsync --server --daemon ." ` + line + " user@host comment"
					file.WriteString("   " + nl)
				}
				file.WriteString(line + nl)
			}
		}
		akPath := filepath.Join(dir, "authorized_keys")
		os.WriteFile(akPath, []byte(file.String()), 0o600)
		logw := &c20Log{}
		osenv := &rsyncos.Env{Stdout: io.Discard, Stderr: logw}
		lcfg := rsyncdconfig.Listener{HostKeyPath: filepath.Join(dir, "hostkey")}
		if c.subset >= 0 {
			lcfg.AuthorizedSSH = rsyncdconfig.SSHListener{Address: "x", AuthorizedKeys: akPath}
		} else {
			lcfg.AnonSSH = "x"
		}
		listener, err := anonssh.ListenerFromConfig(osenv, lcfg)
		if err != nil {
			res.Fail = core.Fail("listener_setup_failed", fmt.Sprintf("subset %04b layout %s: %v", c.subset, layouts[c.layout], err), "layout", layouts[c.layout])
			return res
		}
		ln, err := net.Listen("tcp", "127.0.0.1:0")
		if err != nil {
			res.Inconcl = err.Error()
			return res
		}
		ctx, cancel := context.WithCancel(context.Background())
		defer cancel()
		go anonssh.Serve(ctx, osenv, ln, listener, &rsyncdconfig.Config{}, func(args []string, stdin io.Reader, stdout io.Writer, stderr io.Writer) error {
			return fmt.Errorf("not under test in this part")
		})
		granted, denied := 0, 0
		for k := 0; k <= 5; k++ {
			var signer ssh.Signer
			if k < 5 {
				signer = keys.signers[k]
			}
			cl, err := c20Dial(ln.Addr().String(), signer)
			ok := err == nil
			if cl != nil {
				cl.Close()
			}
			cnt(&res, "transitions", 1)
			want := c.subset < 0 && k < 5 || c.subset >= 0 && k < 4 && c.subset&(1<<k) != 0
			if ok {
				granted++
			} else {
				denied++
			}
			if ok != want {
				sym := "unlisted_key_admitted"
				if want {
					sym = "listed_key_refused"
				}
				res.Fail = core.Fail(sym, fmt.Sprintf("client key %d (%s): handshake ok=%v, want %v (err %v); file:\n%s", k, keyName(keys, k), ok, want, err, trunc(file.String(), 300)), "layout", layouts[c.layout], "key", keyName(keys, k))
				return res
			}
		}
		// two authentication attempts on ONE connection: first a key that is only offered (its proof of possession
		// is invalid: the client knows the public half only), then a second key with a valid signature. The
		// connection is admitted iff the SECOND key is listed, whatever was offered before.
		if c.subset >= 0 {
			for first := 0; first < 5; first++ {
				for second := 0; second < 5; second++ {
					if first == second {
						continue
					}
					cfg := &ssh.ClientConfig{User: "rsync", HostKeyCallback: ssh.InsecureIgnoreHostKey(), Timeout: 20 * time.Second,
						Auth: []ssh.AuthMethod{ssh.PublicKeys(c20PublicOnly{keys.signers[first]}, keys.signers[second])}}
					cl, err := ssh.Dial("tcp", ln.Addr().String(), cfg)
					ok := err == nil
					if cl != nil {
						cl.Close()
					}
					cnt(&res, "transitions", 1)
					want := second < 4 && c.subset&(1<<second) != 0
					if ok != want {
						sym := "unlisted_key_admitted"
						if want {
							sym = "listed_key_refused"
						}
						res.Fail = core.Fail(sym, fmt.Sprintf("key %d (%s) offered without valid proof, then key %d (%s) with a valid signature: handshake ok=%v, want %v (err %v); listed subset %04b", first, keyName(keys, first), second, keyName(keys, second), ok, want, err, c.subset), "layout", layouts[c.layout], "key", keyName(keys, second), "sequence", "offer-then-sign")
						return res
					}
				}
			}
		}
		cnt(&res, "states", res.Counters["transitions"])
		cnt(&res, "traces_validated_against_impl", res.Counters["transitions"])
		res.Nontrivial = granted > 0 && denied > 0
		res.Outcome = fmt.Sprintf("granted=%d/denied=%d", granted, denied)
		return res
	}}
}

// c20PublicOnly offers a public key but cannot prove possession of the private half.
type c20PublicOnly struct{ ssh.Signer }

func (p c20PublicOnly) Sign(rand io.Reader, data []byte) (*ssh.Signature, error) {
	// a signature in a format the server does not accept: an ordinary authentication failure
	// (a wrong signature in an accepted format would end the connection)
	return &ssh.Signature{Format: "no-such-signature-format", Blob: []byte("x")}, nil
}

func keyName(k *c20Keys, i int) string {
	if i >= len(k.signers) {
		return "none"
	}
	return k.signers[i].PublicKey().Type()
}

// ---- part exec: what a session may run

type c20Daemon struct {
	addr   string
	client *ssh.Client
	dir    string
	canary string
	marker string
	script string
	keys   *c20Keys
	log    *c20Log
	before tm.Tree
}

var c20ListenRe = regexp.MustCompile(`listening \(authorized SSH\) on (\S+)`)

func c20StartDaemon() (*c20Daemon, error) {
	// the daemon entry point applies landlock to the whole process: keep the worker usable
	restrict.ExtraHook = func() []landlock.Rule { return []landlock.Rule{landlock.RWDirs("/").WithRefer()} }
	keys, err := c20GenKeys()
	if err != nil {
		return nil, err
	}
	d := &c20Daemon{keys: keys, log: &c20Log{}}
	d.dir = workDir()
	// relative paths in command lines ('.', host:path) must resolve inside the scratch area
	cwd := filepath.Join(d.dir, "cwd")
	os.MkdirAll(cwd, 0o755)
	os.Chdir(cwd)
	d.canary = filepath.Join(d.dir, "canary")
	tm.Tree{tm.D("dir", 0o755, tm.Past), tm.File("dir/secret", []byte("canary secret"), 0o600, tm.Past), tm.File("top", []byte("canary top"), 0o644, tm.Past)}.Materialise(d.canary)
	os.WriteFile(filepath.Join(d.canary, "evil.toml"), []byte("[[module]]\nname = \"leak\"\npath = \""+d.canary+"\"\n"), 0o644)
	d.marker = filepath.Join(d.dir, "MARKER-EXECUTED")
	d.script = filepath.Join(d.dir, "marker.sh")
	os.WriteFile(d.script, []byte("#!/bin/sh\necho executed \"$@\" >> "+d.marker+"\nexit 1\n"), 0o755)
	mod := filepath.Join(d.dir, "mod")
	tm.Tree{tm.File("hello", []byte("module content"), 0o644, tm.Past)}.Materialise(mod)
	ak := filepath.Join(d.dir, "authorized_keys")
	os.WriteFile(ak, []byte(keys.lines[0]+"\n"), 0o600)
	cfg := &rsyncdconfig.Config{
		Listeners:     []rsyncdconfig.Listener{{HostKeyPath: filepath.Join(d.dir, "hostkey"), AuthorizedSSH: rsyncdconfig.SSHListener{Address: "127.0.0.1:0", AuthorizedKeys: ak}}},
		Modules:       []rsyncd.Module{{Name: "mod", Path: mod}},
		DontNamespace: true,
	}
	osenv := &rsyncos.Env{Stdin: bytes.NewReader(nil), Stdout: io.Discard, Stderr: d.log}
	go func() {
		_, err := maincmd.Main(context.Background(), osenv, []string{"gokr-rsyncd", "--daemon"}, cfg)
		fmt.Fprintf(d.log, "MAIN RETURNED: %v\n", err)
	}()
	deadline := time.Now().Add(30 * time.Second)
	for time.Now().Before(deadline) {
		if m := c20ListenRe.FindStringSubmatch(d.log.String()); m != nil {
			d.addr = m[1]
			break
		}
		if strings.Contains(d.log.String(), "MAIN RETURNED") {
			return nil, fmt.Errorf("daemon did not start: %s", tail(d.log.String(), 400))
		}
		time.Sleep(10 * time.Millisecond)
	}
	if d.addr == "" {
		return nil, fmt.Errorf("daemon did not report its listener: %s", tail(d.log.String(), 400))
	}
	cl, err := c20Dial(d.addr, keys.signers[0])
	if err != nil {
		return nil, fmt.Errorf("dial: %v", err)
	}
	d.client = cl
	d.before, _ = tm.Snapshot(d.canary, false)
	return d, nil
}

type c20Outcome struct {
	stdout   []byte
	stderr   string
	status   int // -1 unknown
	timedOut bool
	startErr error
}

// exec runs one command line in a fresh session: sends a protocol version word and a little more, closes stdin.
func (d *c20Daemon) exec(cmdline string) c20Outcome { return d.execStdin(cmdline, nil) }

// execStdin runs one exec request; input nil: what a command-mode client would send first.
func (d *c20Daemon) execStdin(cmdline string, input []byte) c20Outcome {
	o := c20Outcome{status: -1}
	sess, err := d.client.NewSession()
	if err != nil {
		// the connection is gone (the peer may drop it after a refused request): dial again once
		d.client.Close()
		if cl, derr := c20Dial(d.addr, d.keys.signers[0]); derr == nil {
			d.client = cl
			sess, err = d.client.NewSession()
		}
	}
	if err != nil {
		o.startErr = err
		return o
	}
	defer sess.Close()
	var out, errb bytes.Buffer
	sess.Stdout, sess.Stderr = &out, &errb
	stdin, _ := sess.StdinPipe()
	if err := sess.Start(cmdline); err != nil {
		// The listener may finish (refuse) the command and close the channel before it
		// answers the exec request: the command was not served, its status is unknown.
		o.status = 255
		o.stderr = "exec request not answered: " + err.Error()
		o.stdout = append([]byte{}, out.Bytes()...)
		return o
	}
	// what a command-mode client would send first: its protocol version, then an empty filter list and end markers
	if input == nil {
		stdin.Write([]byte{27, 0, 0, 0, 0, 0, 0, 0, 255, 255, 255, 255, 255, 255, 255, 255, 255, 255, 255, 255})
		stdin.Write([]byte("@RSYNCD: 27\n#list\n"))
	} else {
		stdin.Write(input)
	}
	stdin.Close()
	done := make(chan error, 1)
	go func() { done <- sess.Wait() }()
	select {
	case err := <-done:
		o.status = 0
		if err != nil {
			o.status = 1
			if ee, ok := err.(*ssh.ExitError); ok {
				o.status = ee.ExitStatus()
			}
		}
	case <-time.After(20 * time.Second):
		o.timedOut = true
	}
	o.stdout = append([]byte{}, out.Bytes()...)
	o.stderr = errb.String()
	return o
}

// c20DaemonMode: does the command line select daemon-over-shell mode? Words that are
// the value of a preceding value-taking option ("-e X", "--exclude X") are not options.
func c20DaemonMode(words []string) bool {
	server, daemon := false, false
	for i := 0; i < len(words); i++ {
		w := words[i]
		if w == "-e" || w == "--exclude" {
			i++ // skip the value
			continue
		}
		if w == "--server" {
			server = true
		}
		if w == "--daemon" {
			daemon = true
		}
	}
	return server && daemon
}

func c20BuildExec(tier string) core.Source {
	drive.Quiet()
	maxLen := 5
	if tier == "thorough" {
		maxLen = 6
	}
	// "-e" and "--exclude" take the NEXT word as their value, so that e.g. "--daemon" can appear as a value rather than as an option
	alphabet := []string{"--server", "--daemon", "--sender", "-eMARKER", "--rsh=MARKER", "-e", "--exclude", "-vlogDtpr", ".", "CANARY/dir", "CANARY/newdir", "host:path", "rsync://127.0.0.1:1/m",
		// daemon-side options a client must not be able to set for its session
		"--gokr.modulemap=leak=CANARY", "--gokr.config=CANARY/evil.toml"}
	// command lines are enumerated by index (mixed radix over the alphabet), never materialised:
	// all lines of length 0..5; thorough adds the lines of length 6 that contain both --server and --daemon
	A := len(alphabet)
	var starts []int // starts[k] = index of the first line of length k
	total := 0
	pow := 1
	for k := 0; k <= 5; k++ {
		starts = append(starts, total)
		total += pow
		pow *= A
	}
	all6 := pow // A^6
	lineAt := func(idx int) []string {
		k := 5
		for k > 0 && idx < starts[k] {
			k--
		}
		r := idx - starts[k]
		if idx >= total {
			k, r = 6, idx-total
		}
		w := make([]string, k)
		for j := k - 1; j >= 0; j-- {
			w[j] = alphabet[r%A]
			r /= A
		}
		if k == 6 && !(has2(w, "--server") && has2(w, "--daemon")) {
			return nil
		}
		return w
	}
	const batch = 16
	const batch6 = 8192 // raw indices of length 6 per case (about 10% of them pass the filter)
	n := (total + batch - 1) / batch
	n5 := n
	if maxLen == 6 {
		n += (all6 + batch6 - 1) / batch6
	}
	var d *c20Daemon
	return core.FuncSource{N: n, F: func(i int) core.Result {
		lo, hi := i*batch, min((i+1)*batch, total)
		if i >= n5 {
			lo, hi = total+(i-n5)*batch6, min(total+(i-n5+1)*batch6, total+all6)
		}
		var lines [][]string
		for idx := lo; idx < hi; idx++ {
			if w := lineAt(idx); w != nil || idx == 0 {
				lines = append(lines, w)
			}
		}
		res := core.Result{Case: fmt.Sprintf("exec command lines with indices %d..%d (%d lines)", lo, hi-1, len(lines))}
		if len(lines) > 0 {
			res.Case += ", e.g. rsync " + strings.Join(lines[0], " ")
		}
		if d == nil {
			var err error
			if d, err = c20StartDaemon(); err != nil {
				res.Inconcl = "harness: " + err.Error()
				return res
			}
		}
		daemonSessions := 0
		for _, words := range lines {
			var w []string
			for _, x := range words {
				x = strings.ReplaceAll(x, "MARKER", d.script)
				x = strings.ReplaceAll(x, "CANARY", d.canary)
				w = append(w, x)
			}
			cmd := "rsync " + strings.Join(w, " ")
			core.Note("C20-CASE %s", cmd)
			o := d.exec(cmd)
			cnt(&res, "transitions", 1)
			if o.startErr != nil {
				res.Inconcl = "session could not be started: " + o.startErr.Error()
				return res
			}
			ff := []string{"server", fmt.Sprint(has2(words, "--server")), "daemon", fmt.Sprint(has2(words, "--daemon")), "sender", fmt.Sprint(has2(words, "--sender")), "rsh", fmt.Sprint(has2(words, "-eMARKER") || has2(words, "--rsh=MARKER"))}
			if _, err := os.Stat(d.marker); err == nil {
				os.Remove(d.marker)
				res.Fail = core.Fail("remote_shell_command_executed", fmt.Sprintf("%q made the listener execute the marker script", cmd), ff...)
				return res
			}
			if now, _ := tm.Snapshot(d.canary, false); len(tm.Diff(d.before, now, tm.Full)) > 0 {
				diff := tm.Diff(d.before, now, tm.Full)
				d.before = now
				res.Fail = core.Fail("session_touched_files_outside_modules", fmt.Sprintf("%q: %s", cmd, trunc(strings.Join(diff, ";"), 300)), ff...)
				return res
			}
			if c20DaemonMode(words) {
				// the canonical forms must be served; with further tokens the option parser may
				// also refuse the line (a refusal is fine, anything else but the greeting is not)
				canonical := true
				for _, x := range words {
					if x != "--server" && x != "--daemon" && x != "." {
						canonical = false
					}
				}
				greeted := bytes.HasPrefix(o.stdout, []byte("@RSYNCD: 27\n"))
				if greeted {
					daemonSessions++
					// the session must expose exactly the configured modules: ask it for its module list
					// and try to fetch from a module name the command line may have tried to add
					l := d.execStdin(cmd, []byte("@RSYNCD: 27\n#list\n"))
					var mods []string
					for _, line := range strings.Split(string(l.stdout), "\n") {
						if line == "" || strings.HasPrefix(line, "@RSYNCD:") {
							continue
						}
						mods = append(mods, strings.TrimSpace(strings.SplitN(line, "\t", 2)[0]))
					}
					if len(mods) != 1 || mods[0] != "mod" {
						res.Fail = core.Fail("session_exposes_other_modules", fmt.Sprintf("%q: module listing of the session is %q, configured: [mod]", cmd, mods), ff...)
						return res
					}
					k := d.execStdin(cmd, []byte("@RSYNCD: 27\nleak\n--server\n--sender\n-r\n.\nleak/\n\n\x00\x00\x00\x00"))
					if bytes.Contains(k.stdout, []byte("@RSYNCD: OK")) || bytes.Contains(k.stdout, []byte("secret")) {
						res.Fail = core.Fail("session_exposes_other_modules", fmt.Sprintf("%q: a module named leak is served: %q", cmd, trunc(string(k.stdout), 80)), ff...)
						return res
					}
					cnt(&res, "transitions", 2)
					continue
				}
				if canonical || len(o.stdout) > 0 || o.status == 0 {
					res.Fail = core.Fail("daemon_mode_not_served", fmt.Sprintf("%q: stdout %q stderr %q status %d", cmd, trunc(string(o.stdout), 60), trunc(o.stderr, 200), o.status), ff...)
					return res
				}
				continue
			}
			if len(o.stdout) > 0 {
				res.Fail = core.Fail("non_daemon_command_served", fmt.Sprintf("%q: the session answered with %d bytes on stdout (%q), exit status %d", cmd, len(o.stdout), trunc(string(o.stdout), 40), o.status), ff...)
				return res
			}
			if o.timedOut {
				res.Inconcl = fmt.Sprintf("%q: no exit status within 20 s", cmd)
				return res
			}
			if o.status == 0 {
				res.Fail = core.Fail("non_daemon_command_succeeded", fmt.Sprintf("%q: exit status 0", cmd), ff...)
				return res
			}
		}
		cnt(&res, "states", res.Counters["transitions"])
		cnt(&res, "traces_validated_against_impl", res.Counters["transitions"])
		res.Nontrivial = true
		res.Outcome = fmt.Sprintf("ok/daemon-sessions>0=%v", daemonSessions > 0)
		return res
	}}
}

func has2(ws []string, x string) bool {
	for _, w := range ws {
		if w == x {
			return true
		}
	}
	return false
}

// c20BuildRequests: other request and channel types.
func c20BuildRequests(tier string) core.Source {
	drive.Quiet()
	kinds := []string{"shell", "subsystem-sftp", "pty-req", "env-then-daemon", "direct-tcpip-channel", "x11-channel"}
	var d *c20Daemon
	return core.FuncSource{N: len(kinds), F: func(i int) core.Result {
		kind := kinds[i]
		res := core.Result{Case: "request/channel type: " + kind}
		if d == nil {
			var err error
			if d, err = c20StartDaemon(); err != nil {
				res.Inconcl = "harness: " + err.Error()
				return res
			}
		}
		cnt(&res, "transitions", 1)
		cnt(&res, "states", 1)
		cnt(&res, "traces_validated_against_impl", 1)
		switch kind {
		case "direct-tcpip-channel", "x11-channel":
			name := map[string]string{"direct-tcpip-channel": "direct-tcpip", "x11-channel": "x11"}[kind]
			ch, _, err := d.client.OpenChannel(name, nil)
			if err == nil {
				ch.Close()
				res.Fail = core.Fail("foreign_channel_accepted", name)
				return res
			}
		case "env-then-daemon":
			sess, err := d.client.NewSession()
			if err != nil {
				res.Inconcl = err.Error()
				return res
			}
			defer sess.Close()
			// an env request (without asking for a reply, like OpenSSH's SendEnv): may be ignored, must not be acted upon
			sess.SendRequest("env", false, ssh.Marshal(struct{ Name, Value string }{"RSYNC_RSH", d.script}))
			o := d.exec("rsync --server --daemon .")
			if !bytes.HasPrefix(o.stdout, []byte("@RSYNCD: 27\n")) {
				res.Fail = core.Fail("daemon_mode_not_served", trunc(o.stderr, 200))
				return res
			}
		default:
			sess, err := d.client.NewSession()
			if err != nil {
				res.Inconcl = err.Error()
				return res
			}
			defer sess.Close()
			var rerr error
			switch kind {
			case "shell":
				rerr = sess.Shell()
			case "subsystem-sftp":
				rerr = sess.RequestSubsystem("sftp")
			case "pty-req":
				rerr = sess.RequestPty("xterm", 24, 80, ssh.TerminalModes{})
			}
			if rerr == nil {
				res.Fail = core.Fail("foreign_request_accepted", kind)
				return res
			}
		}
		if _, err := os.Stat(d.marker); err == nil {
			os.Remove(d.marker)
			res.Fail = core.Fail("remote_shell_command_executed", kind)
			return res
		}
		res.Nontrivial = true
		res.Outcome = "refused/" + kind
		return res
	}}
}

func init() {
	core.Register(&core.Prop{
		ID:    "C20",
		Level: "model_checking",
		Rule: "auth: every subset of 4 listable keys (ed25519 x2, ecdsa-p256, rsa-2048) x authorized_keys layouts {plain, comments/blank lines/options prefix, CRLF} (incl. the empty file) x every client key (the 4, an unlisted one, none) and every ordered pair (key offered without valid proof of possession, then another key with a valid signature) on one connection, plus the anonymous listener, each a real SSH handshake against anonssh.Serve; exec: the real daemon entry point (maincmd.Main --daemon with an authorized-SSH listener, i.e. the real session dispatch) receives every exec command line 'rsync w1..wk', k<=5 (thorough: length 6 for the lines containing both --server and --daemon) over {--server,--daemon,--sender,-e<marker>,--rsh=<marker>,-e <next word>,--exclude <next word>,-vlogDtpr,.,<canary>/dir,<canary>/newdir,host:path,rsync://…,--gokr.modulemap=leak=<canary>,--gokr.config=<canary>/evil.toml}; requests: shell, subsystem, pty-req, env, foreign channel types. " +
			"oracle: handshake succeeds iff the key is listed (always on the anonymous listener); a session produces the daemon greeting iff the command line selects --server --daemon, and such a session lists exactly the configured module and serves no other module name; every other command line yields no stdout bytes, a non-zero exit status, an untouched canary directory and no execution of the marker script. states/transitions = handshakes / sessions",
		Assum: []string{"key material is generated per worker and is not an explored dimension", "landlock is neutralised in the worker (it would narrow what a session can reach; the property is about the listener's dispatch)", "the anonymous listener's dispatch closure is textually the same as the authorised one and needs Linux namespaces to start, so the authorised one is driven"},
		Parts: func(tier string) []core.Part {
			return []core.Part{{Name: "auth", Build: c20BuildAuth}, {Name: "exec", Build: c20BuildExec, Par: 8}, {Name: "requests", Build: c20BuildRequests, Par: 1}}
		},
	})
}
