package props

import (
	"bytes"
	"fmt"
	"os"
	"path/filepath"
	"strings"

	"github.com/gokrazy/rsync/verifharness/core"
	"github.com/gokrazy/rsync/verifharness/drive"
	tm "github.com/gokrazy/rsync/verifharness/treemodel"
)

// C01 histories (shape H): explicit-state BFS over sequences of edits on
// either side and real syncs, so that prior destination states are *reached
// by earlier syncs* rather than hand-written.

type hFile struct {
	kind byte  // 0 absent, 'f' regular, 'l' symlink, 'd' empty directory
	cid  int   // content id for regular files
	mver int64 // mtime = Past + mver (seconds); -1: "now" (written by a transfer without -t)
}

type hState struct {
	src, dst [2]hFile
}

func (s hState) key() string { return fmt.Sprintf("%v", s) }

var hNames = [2]string{"f0", "d/f1"}

func hContent(cid int) []byte {
	switch cid {
	case 0:
		return []byte{}
	case 1:
		return genData(famHash, 900, 101)
	case 2:
		return genData(famHash, 900, 102) // same size as 1
	default:
		return genData(famHash, 1800, 103)
	}
}

func hMaterialise(root string, fs [2]hFile) {
	os.MkdirAll(filepath.Join(root, "d"), 0o755)
	for i, f := range fs {
		p := filepath.Join(root, hNames[i])
		switch f.kind {
		case 'f':
			os.WriteFile(p, hContent(f.cid), 0o644)
			if f.mver >= 0 {
				setMtime(p, tm.Past+f.mver, 0)
			}
		case 'l':
			os.Symlink("elsewhere", p)
		case 'd':
			os.MkdirAll(p, 0o755)
		}
	}
}

type hOp struct {
	kind string // "src-write", "src-delete", "dst-write", "dst-delete", "dst-symlink", "dst-dir", "sync"
	file int
	cid  int
	opts string
	arr  string
}

func (o hOp) String() string {
	if o.kind == "sync" {
		return fmt.Sprintf("sync(%s,%s)", o.opts, o.arr)
	}
	return fmt.Sprintf("%s(%s,%d)", o.kind, hNames[o.file], o.cid)
}

func hOps() []hOp {
	var ops []hOp
	for f := 0; f < 2; f++ {
		for cid := 0; cid < 4; cid++ {
			ops = append(ops, hOp{kind: "src-write", file: f, cid: cid})
		}
		ops = append(ops, hOp{kind: "src-delete", file: f})
		for cid := 0; cid < 4; cid++ {
			ops = append(ops, hOp{kind: "dst-write", file: f, cid: cid})
		}
		ops = append(ops, hOp{kind: "dst-delete", file: f}, hOp{kind: "dst-symlink", file: f}, hOp{kind: "dst-dir", file: f})
	}
	for _, o := range []string{"-rt", "-r", "-rc", "-rtI"} {
		for _, a := range drive.Arrangements {
			ops = append(ops, hOp{kind: "sync", opts: o, arr: a})
		}
	}
	return ops
}

// hSync runs one real sync from the model state, checks the C01 rule and returns the successor state.
func hSync(st hState, o hOp, hist string, res *core.Result) (hState, *core.Failure) {
	dir := workDir()
	defer cleanup(dir)
	hMaterialise(filepath.Join(dir, "src"), st.src)
	hMaterialise(filepath.Join(dir, "dst"), st.dst)
	out := drive.Run(drive.Job{Arr: o.arr, Args: []string{o.opts}, Base: dir, Sources: []string{"src/"}, Dest: filepath.Join(dir, "dst")})
	cnt(res, "transitions", 1)
	ff := []string{"arr", o.arr, "opts", o.opts}
	if !out.OK() {
		return st, core.Fail("session_failed", hist+": "+out.ErrString(), ff...)
	}
	e := effective([]string{o.opts})
	next := st
	for i := 0; i < 2; i++ {
		s, d := st.src[i], st.dst[i]
		if s.kind != 'f' {
			continue // source entry absent: nothing demanded (no --delete)
		}
		got, err := os.ReadFile(filepath.Join(dir, "dst", hNames[i]))
		uptodate := false
		if d.kind == 'f' && len(hContent(d.cid)) == len(hContent(s.cid)) {
			switch {
			case e.c:
				uptodate = d.cid == s.cid
			case e.I:
				uptodate = false
			default:
				uptodate = d.mver >= 0 && d.mver == s.mver
			}
		}
		if uptodate {
			if err != nil || !bytes.Equal(got, hContent(d.cid)) {
				return st, core.Fail("uptodate_file_changed", fmt.Sprintf("%s: %s was up to date by the rule but its content changed (err %v)", hist, hNames[i], err), ff...)
			}
			continue
		}
		if err != nil || !bytes.Equal(got, hContent(s.cid)) {
			return st, core.Fail("content_mismatch", fmt.Sprintf("%s: %s should hold content %d of the source after a successful sync (prior destination: kind %q content %d mver %d; err %v, %d bytes)", hist, hNames[i], s.cid, d.kind, d.cid, d.mver, err, len(got)), append(ff, "prior_kind", string(rune(max(int(d.kind), 48))))...)
		}
		next.dst[i] = hFile{kind: 'f', cid: s.cid, mver: s.mver}
		if !e.t {
			next.dst[i].mver = -1
		}
	}
	cnt(res, "traces_validated_against_impl", 1)
	return next, nil
}

func c01BuildHistories(tier string) core.Source {
	drive.Quiet()
	depth := 2
	if tier == "thorough" {
		depth = 3
	}
	ops := hOps()
	init := hState{}
	init.src[0] = hFile{kind: 'f', cid: 1, mver: 1}
	init.src[1] = hFile{kind: 'f', cid: 3, mver: 1}
	return core.FuncSource{N: len(ops), F: func(first int) core.Result {
		res := core.Result{Case: fmt.Sprintf("histories starting with %v, depth<=%d, over %d operations (edits of 2 files on either side with 4 contents incl. empty and same-size twins, deletes, type changes; syncs with 4 option sets x 5 arrangements)", ops[first], depth, len(ops))}
		var verCounter int64 = 10
		apply := func(st hState, path []int, oi int) (hState, *core.Failure) {
			o := ops[oi]
			switch o.kind {
			case "src-write":
				verCounter++
				st.src[o.file] = hFile{kind: 'f', cid: o.cid, mver: st.src[o.file].mver + 1}
			case "src-delete":
				st.src[o.file] = hFile{}
			case "dst-write":
				st.dst[o.file] = hFile{kind: 'f', cid: o.cid, mver: 0} // an old mtime that no source version has
			case "dst-delete":
				st.dst[o.file] = hFile{}
			case "dst-symlink":
				st.dst[o.file] = hFile{kind: 'l'}
			case "dst-dir":
				st.dst[o.file] = hFile{kind: 'd'}
			case "sync":
				var sb strings.Builder
				for _, x := range append(append([]int{}, path...), oi) {
					sb.WriteString(ops[x].String() + " ")
				}
				return hSync(st, o, sb.String(), &res)
			}
			return st, nil
		}
		type node struct {
			st   hState
			path []int
		}
		n0, f := apply(init, nil, first)
		if f != nil {
			res.Fail = f
			return res
		}
		seen := map[string]bool{n0.key(): true}
		frontier := []node{{n0, []int{first}}}
		for d := 1; d < depth; d++ {
			var next []node
			for _, n := range frontier {
				for oi := range ops {
					st2, f := apply(n.st, n.path, oi)
					if f != nil {
						res.Fail = f
						return res
					}
					if !seen[st2.key()] {
						seen[st2.key()] = true
						next = append(next, node{st2, append(append([]int{}, n.path...), oi)})
					}
				}
			}
			frontier = next
		}
		cnt(&res, "states", int64(len(seen)))
		res.Nontrivial = res.Counters["transitions"] > 0
		res.Outcome = fmt.Sprintf("ok/syncs>0=%v", res.Counters["transitions"] > 0)
		return res
	}}
}
