package props

import (
	"fmt"
	"os"
	"strings"
	"time"

	"github.com/gokrazy/rsync/verifharness/core"
	"github.com/gokrazy/rsync/verifharness/drive"
	tm "github.com/gokrazy/rsync/verifharness/treemodel"
)

// C11 — requested metadata is reproduced at the destination.

// c11Oracle compares destination entries with source entries under the
// effective options. prior: destination before the run.
func c11Oracle(src, before, after tm.Tree, args []string, prefix string) *core.Failure {
	e := effective(args)
	am := map[string]*tm.Entry{}
	for i := range after {
		am[after[i].Path] = &after[i]
	}
	bm := map[string]*tm.Entry{}
	for i := range before {
		bm[before[i].Path] = &before[i]
	}
	for _, s := range src {
		transferred := true
		switch s.Type {
		case tm.Link:
			transferred = e.l
		case tm.Chr, tm.Blk:
			transferred = e.devices
		case tm.Fifo, tm.Sock:
			transferred = e.specials
		}
		if !transferred {
			continue
		}
		ff := []string{"type", c10TypeNames[s.Type], "p", fmt.Sprint(e.p), "existed", fmt.Sprint(bm[prefix+s.Path] != nil)}
		a := am[prefix+s.Path]
		if a == nil {
			return core.Fail("entry_missing", fmt.Sprintf("%q (%s) not at destination", s.Path, c10TypeNames[s.Type]), ff...)
		}
		if a.Type != s.Type {
			return core.Fail("wrong_type", fmt.Sprintf("%q: type %c, want %c", s.Path, a.Type, s.Type), ff...)
		}
		if e.p && s.Type != tm.Link && a.Mode&0o777 != s.Mode&0o777 {
			return core.Fail("perms_not_reproduced", fmt.Sprintf("%q (%s): mode %04o, want %04o", s.Path, c10TypeNames[s.Type], a.Mode&0o777, s.Mode&0o777), ff...)
		}
		if !e.p && s.Type == tm.Reg {
			if b := bm[prefix+s.Path]; b != nil && b.Type == tm.Reg && a.Mode&0o777 != b.Mode&0o777 {
				return core.Fail("existing_perms_changed_without_p", fmt.Sprintf("%q: existing file had mode %04o, now %04o (source %04o), no -p given", s.Path, b.Mode&0o777, a.Mode&0o777, s.Mode&0o777), append(ff, "uptodate", fmt.Sprint(b.Sum == a.Sum && b.Mtime == s.Mtime))...)
			}
		}
		if e.t && s.Type == tm.Reg && a.Mtime != s.Mtime {
			return core.Fail("mtime_not_reproduced", fmt.Sprintf("%q: mtime %d, want %d (source %d.%09d)", s.Path, a.Mtime, s.Mtime, s.Mtime, s.Nsec), ff...)
		}
		if s.Type == tm.Link && a.Target != s.Target {
			return core.Fail("link_target_not_reproduced", fmt.Sprintf("%q: %q, want %q", s.Path, trunc(a.Target, 60), trunc(s.Target, 60)), ff...)
		}
		if (s.Type == tm.Chr || s.Type == tm.Blk) && a.Rdev != s.Rdev {
			return core.Fail("rdev_not_reproduced", fmt.Sprintf("%q: rdev %#x, want %#x", s.Path, a.Rdev, s.Rdev), ff...)
		}
		if e.o && a.Uid != s.Uid {
			return core.Fail("owner_not_reproduced", fmt.Sprintf("%q: uid %d, want %d", s.Path, a.Uid, s.Uid), ff...)
		}
		if e.g && a.Gid != s.Gid {
			return core.Fail("group_not_reproduced", fmt.Sprintf("%q: gid %d, want %d", s.Path, a.Gid, s.Gid), ff...)
		}
		if s.Type == tm.Reg && a.Sum != tm.SumOf(s.Data) {
			// content is C01's business, but a metadata check on wrong bytes is meaningless
			if b := bm[prefix+s.Path]; b == nil || b.Sum != a.Sum {
				return core.Fail("content_mismatch", fmt.Sprintf("%q", s.Path), ff...)
			}
		}
	}
	return nil
}

func c11Run(sc *syncCase, what string) core.Result {
	res := core.Result{Case: what + " " + sc.String()}
	sr, err := sc.run(false)
	defer cleanup(sr.Dir)
	if err != nil {
		res.Inconcl = err.Error()
		return res
	}
	cnt(&res, "transitions", 1)
	cnt(&res, "states", int64(len(sc.Src)))
	cnt(&res, "traces_validated_against_impl", 1)
	if !sr.Out.OK() {
		res.Outcome = "error"
		res.Fail = core.Fail("session_failed", sr.Out.ErrString()+" | "+tail(sr.Out.Stderr, 300), "arr", sc.Arr)
		return res
	}
	if f := c11Oracle(sc.Src, sr.Before, sr.After, sc.Args, sr.Prefix); f != nil {
		f.Features["arr"] = sc.Arr
		res.Fail = f
		return res
	}
	res.Outcome = "ok/" + strings.Join(sc.Args, " ")
	res.Nontrivial = true
	return res
}

// priorVariant builds a destination that already has every regular file,
// directory and symlink of src but with other metadata; mode: 0 absent,
// 1 same data+mtime other perms/owner (up to date), 2 other data.
func c11Prior(src tm.Tree, variant int) tm.Tree {
	if variant == 0 {
		return nil
	}
	var d tm.Tree
	for _, s := range src {
		e := s
		switch s.Type {
		case tm.Reg:
			e.Mode = 0o751
			e.Uid, e.Gid = 7, 8
			if variant == 2 {
				e.Data = append([]byte("other:"), s.Data...)
				if len(s.Path)%3 == 0 {
					e.Data = nil // an existing EMPTY file has its own permissions too
				}
				e.Mtime = s.Mtime - 100
			}
		case tm.Dir:
			e.Mode = 0o711
			e.Mtime = s.Mtime - 100
		case tm.Link:
			e.Target = "old-" + s.Target
			if len(e.Target) > 4000 {
				e.Target = "old"
			}
		case tm.Chr, tm.Blk:
			// variant 1: a node of the same type with other numbers; variant 2: the other kind of device / a regular file in its place
			if variant == 1 {
				e.Rdev = s.Rdev ^ 0x0101
				e.Mode = 0o611
			} else if len(s.Path)%2 == 0 {
				e.Type = map[byte]byte{tm.Chr: tm.Blk, tm.Blk: tm.Chr}[s.Type]
			} else {
				e = tm.File(s.Path, []byte("a regular file where a device belongs"), 0o644, s.Mtime-100)
			}
		case tm.Fifo, tm.Sock:
			if variant == 1 {
				e.Mode = 0o611
			} else {
				e = tm.File(s.Path, []byte("a regular file where a special file belongs"), 0o644, s.Mtime-100)
			}
		default:
			continue
		}
		d = append(d, e)
	}
	return d
}

func c11BuildPerms(tier string) core.Source {
	drive.Quiet()
	var src tm.Tree
	for m := uint32(0); m < 512; m++ {
		src = append(src, tm.File(fmt.Sprintf("f%03o", m), []byte(fmt.Sprintf("file %o", m)), m, tm.Past+int64(m)))
		src = append(src, tm.D(fmt.Sprintf("d%03o", m), m, tm.Past))
		src = append(src, tm.File(fmt.Sprintf("d%03o/inner", m), []byte("inner"), 0o644, tm.Past))
	}
	type cs struct {
		arr   string
		args  string
		prior int
	}
	var cases []cs
	for _, arr := range drive.Arrangements {
		for _, args := range []string{"-rp", "-r", "-rpt", "-a", "-rt", "-rpc"} {
			for prior := 0; prior < 3; prior++ {
				cases = append(cases, cs{arr, args, prior})
			}
		}
	}
	return core.FuncSource{N: len(cases), F: func(i int) core.Result {
		c := cases[i]
		return c11Run(&syncCase{Arr: c.arr, Args: []string{c.args}, Src: src, Dst: c11Prior(src, c.prior), Form: "contents"}, fmt.Sprintf("perms 0000..0777 on files and directories, prior=%d", c.prior))
	}}
}

func c11ValueTree() tm.Tree {
	var t tm.Tree
	// mtimes
	type mt struct{ s, ns int64 }
	for i, m := range []mt{{-2147483648, 0}, {-2147483647, 0}, {-2, 500_000_000}, {-1, 0}, {-1, 500_000_000}, {0, 0}, {0, 500_000_000}, {1, 0}, {2147483647, 0}, {tm.Past, 999_999_999}} {
		e := tm.File(fmt.Sprintf("mt%02d", i), []byte(fmt.Sprint("mtime", i)), 0o644, m.s)
		e.Nsec = m.ns
		t = append(t, e)
	}
	// symlink targets
	for i, tg := range []string{"dangling", "/absolute/path", "../x", strings.Repeat("t", 255), strings.Repeat("p/", 2047) + "q", "hi\xff\x80bytes", "with space and\nnewline", "."} {
		t = append(t, tm.L(fmt.Sprintf("ln%02d", i), tg))
	}
	// devices
	k := 0
	for _, major := range []uint64{0, 1, 255, 4095} {
		for _, minor := range []uint64{0, 255, 256, 1<<20 - 1} {
			dev := (minor & 0xff) | (major << 8) | ((minor &^ 0xff) << 12)
			t = append(t, tm.Entry{Path: fmt.Sprintf("chr%02d", k), Type: tm.Chr, Mode: 0o600, Mtime: tm.Past, Rdev: dev})
			t = append(t, tm.Entry{Path: fmt.Sprintf("blk%02d", k), Type: tm.Blk, Mode: 0o660, Mtime: tm.Past, Rdev: dev})
			k++
		}
	}
	t = append(t, tm.Entry{Path: "fifo", Type: tm.Fifo, Mode: 0o640, Mtime: tm.Past}, tm.Entry{Path: "sock", Type: tm.Sock, Mode: 0o750, Mtime: tm.Past})
	// equal device numbers on nodes that are not neighbours in the list (other entries in between), in one directory and
	// in two directories; equal numbers on neighbours; entries with equal mode / time / owner runs interrupted by others
	t = append(t, tm.Entry{Path: "same-a-null", Type: tm.Chr, Mode: 0o666, Mtime: tm.Past, Rdev: 0x0103}, tm.File("same-b-file", []byte("between"), 0o644, tm.Past),
		tm.Entry{Path: "same-c-null", Type: tm.Chr, Mode: 0o666, Mtime: tm.Past, Rdev: 0x0103}, tm.Entry{Path: "same-d-null", Type: tm.Chr, Mode: 0o666, Mtime: tm.Past, Rdev: 0x0103},
		tm.L("same-e-link", "x"), tm.Entry{Path: "same-f-blk", Type: tm.Blk, Mode: 0o660, Mtime: tm.Past, Rdev: 0x0103},
		tm.D("jail1", 0o755, tm.Past), tm.Entry{Path: "jail1/null", Type: tm.Chr, Mode: 0o666, Mtime: tm.Past, Rdev: 0x0103}, tm.File("jail1/passwd", []byte("x"), 0o644, tm.Past),
		tm.D("jail2", 0o755, tm.Past), tm.Entry{Path: "jail2/null", Type: tm.Chr, Mode: 0o666, Mtime: tm.Past, Rdev: 0x0103}, tm.Entry{Path: "jail2/zero", Type: tm.Chr, Mode: 0o666, Mtime: tm.Past, Rdev: 0x0105})
	// owners
	for i, id := range []int{0, 1, 65534, 12345} {
		e := tm.File(fmt.Sprintf("own%d", i), []byte("owner"), 0o644, tm.Past)
		e.Uid, e.Gid = id, []int{12345, 0, 1, 65534}[i]
		t = append(t, e)
		d := tm.D(fmt.Sprintf("owndir%d", i), 0o755, tm.Past)
		d.Uid, d.Gid = id, id
		t = append(t, d)
	}
	return t
}

func c11BuildSubsets(tier string) core.Source {
	drive.Quiet()
	src := c11ValueTree()
	type cs struct {
		arr   string
		mask  int
		prior int
	}
	var cases []cs
	for _, arr := range drive.Arrangements {
		for mask := 0; mask < 64; mask++ {
			for prior := 0; prior < 3; prior++ {
				cases = append(cases, cs{arr, mask, prior})
			}
		}
	}
	return core.FuncSource{N: len(cases), F: func(i int) core.Result {
		c := cases[i]
		args := subsetArgs("ptlDog", c.mask, "r")
		// a file modified 1.5 s ago: its mtime is within a couple of seconds of
		// the moment the receiver writes the copy
		now := time.Now().Add(-1500 * time.Millisecond)
		recent := tm.File("recent", []byte("recent"), 0o644, now.Unix())
		recent.Nsec = int64(now.Nanosecond())
		src := append(src.Clone(), recent)
		return c11Run(&syncCase{Arr: c.arr, Args: args, Src: src, Dst: c11Prior(src, c.prior), Form: "contents"}, fmt.Sprintf("value pools (mtimes, link targets, rdevs, owners), prior=%d", c.prior))
	}}
}

func init() {
	core.Register(&core.Prop{
		ID:    "C11",
		Level: "model_checking",
		Rule: "perms: all 512 permission values on files and on directories (each holding a file) x {-rp,-r,-rpt,-a,-rt,-rpc} x 5 arrangements x prior destination {absent, up to date with other perms/owner, other content}; subsets: value pools (10 boundary mtimes incl. pre-1970 and sub-second, 8 link targets up to 4095 bytes, 16 rdevs x {chr,blk} plus device nodes with equal numbers as neighbours / separated by other entries / in two directories, fifo, socket, 4 uid/gid values) x every subset of {-p,-t,-l,-D,-o,-g} x 5 arrangements x 3 prior states; nonroot (thorough): nested read-only directories received by a uid-65534 worker. " +
			"oracle: per transferred entry same type; -p perm bits; -t regular-file mtime to the second; -l target; -D rdev; -o/-g owner/group (root); without -p an existing regular file keeps its permission bits. states = entries compared, transitions = sessions",
		Assum: []string{"runs as root on tmpfs (owner tests) — id mapping by name is not demanded (single host)", "directory and symlink mtimes are not compared"},
		Parts: func(tier string) []core.Part {
			return []core.Part{{Name: "perms", Build: c11BuildPerms}, {Name: "subsets", Build: c11BuildSubsets}, {Name: "nonroot", Build: c11BuildNonRoot, Uid: 65534}}
		},
	})
}

// c11BuildNonRoot runs as uid 65534: directories lacking owner write
// permission must still receive their contents and end with the source mode.
func c11BuildNonRoot(tier string) core.Source {
	drive.Quiet()
	modes := []uint32{0o555, 0o500, 0o755, 0o550, 0o511}
	type cs struct {
		arr        string
		args       string
		m1, m2, m3 uint32
		prior      int
	}
	var cases []cs
	for _, arr := range drive.Arrangements {
		for _, args := range []string{"-rp", "-rpt", "-a"} {
			for _, m1 := range modes {
				for _, m2 := range modes {
					for _, m3 := range []uint32{0o555, 0o755} {
						for prior := 0; prior < 2; prior++ {
							cases = append(cases, cs{arr, args, m1, m2, m3, prior})
						}
					}
				}
			}
		}
	}
	return core.FuncSource{N: len(cases), F: func(i int) core.Result {
		c := cases[i]
		uid := 65534
		if os.Getuid() != uid {
			return core.Result{Case: "non-root", Inconcl: fmt.Sprintf("worker runs as uid %d, not %d", os.Getuid(), uid)}
		}
		own := func(e tm.Entry) tm.Entry { e.Uid, e.Gid = uid, uid; return e }
		src := tm.Tree{
			own(tm.D("ro1", c.m1, tm.Past)), own(tm.File("ro1/f", []byte("f1"), 0o444, tm.Past)),
			own(tm.D("ro1/ro2", c.m2, tm.Past)), own(tm.File("ro1/ro2/f", []byte("f2"), 0o400, tm.Past)),
			own(tm.D("ro1/ro2/ro3", c.m3, tm.Past)), own(tm.File("ro1/ro2/ro3/f", []byte("f3"), 0o644, tm.Past)),
			own(tm.D("rw", 0o755, tm.Past)), own(tm.File("rw/f", []byte("f4"), 0o600, tm.Past)),
		}
		var dst tm.Tree
		if c.prior == 1 {
			// destination exists already with the read-only modes and an outdated file
			dst = tm.Tree{own(tm.D("ro1", c.m1, tm.Past-9)), own(tm.File("ro1/f", []byte("old"), 0o444, tm.Past-9))}
		}
		return c11Run(&syncCase{Arr: c.arr, Args: []string{c.args}, Src: src, Dst: dst, Form: "contents"}, fmt.Sprintf("non-root (uid 65534): nested directories with modes %04o/%04o/%04o, prior=%d", c.m1, c.m2, c.m3, c.prior))
	}}
}
