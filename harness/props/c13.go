package props

import (
	"fmt"
	"path"
	"strings"

	"github.com/gokrazy/rsync/verifharness/core"
	"github.com/gokrazy/rsync/verifharness/drive"
	tm "github.com/gokrazy/rsync/verifharness/treemodel"
)

// C13 — exclude/include rules filter exactly the named entries.

type c13Rule struct {
	include bool
	name    string
}

func (r c13Rule) String() string {
	if r.include {
		return "+" + r.name
	}
	return "-" + r.name
}

// args spells the rule list; spelling style rotates with the list index so
// that --exclude/--include and -f are both exercised.
func c13Args(rules []c13Rule, style int) []string {
	var out []string
	for i, r := range rules {
		useF := (style+i)%2 == 1
		switch {
		case useF && r.include:
			out = append(out, "-f", "+ "+r.name)
		case useF:
			out = append(out, "-f", "- "+r.name)
		case r.include:
			out = append(out, "--include="+r.name)
		default:
			out = append(out, "--exclude="+r.name)
		}
	}
	return out
}

// c13Excluded is the reference filter: the first rule whose name equals the
// entry's base name decides.
func c13Excluded(rules []c13Rule, p string) bool {
	base := path.Base(p)
	for _, r := range rules {
		if r.name == base {
			return !r.include
		}
	}
	return false
}

func c13Expected(src tm.Tree, rules []c13Rule) tm.Tree {
	var out tm.Tree
	for _, e := range src {
		parts := strings.Split(e.Path, "/")
		excl := false
		for i := 1; i <= len(parts); i++ {
			if c13Excluded(rules, strings.Join(parts[:i], "/")) {
				excl = true
				break
			}
		}
		if !excl {
			out = append(out, e)
		}
	}
	return out
}

func c13Trees() []tm.Tree {
	f := func(p string) tm.Entry { return tm.File(p, []byte("data:"+p), 0o644, tm.Past) }
	d := func(p string) tm.Entry { return tm.D(p, 0o755, tm.Past) }
	return []tm.Tree{
		{f("a"), f("b"), f("c")},
		{f("a"), d("d"), f("d/a"), f("d/b"), f("e")},
		{f("a"), f("b"), d("d"), f("d/a"), f("d/c"), d("d/d"), f("d/d/a"), f("d/d/b"), d("d/e"), f("d/e/zz"), d("e"), f("e/b"), f("e/c"), f("zzz")},
	}
}

func c13BuildLists(tier string) core.Source {
	drive.Quiet()
	maxLen := 2
	arrs := drive.Arrangements
	if tier == "thorough" {
		maxLen = 3
	}
	names := []string{"a", "b", "c", "d", "e", "zz"}
	var pool []c13Rule
	for _, n := range names {
		pool = append(pool, c13Rule{false, n}, c13Rule{true, n})
	}
	var lists [][]c13Rule
	var gen func(p []c13Rule)
	gen = func(p []c13Rule) {
		lists = append(lists, append([]c13Rule{}, p...))
		if len(p) == maxLen {
			return
		}
		for _, r := range pool {
			gen(append(p, r))
		}
	}
	gen(nil)
	trees := c13Trees()
	type cs struct {
		list, tree int
		arr        string
	}
	var cases []cs
	for li := range lists {
		for ti := range trees {
			for _, arr := range arrs {
				cases = append(cases, cs{li, ti, arr})
			}
		}
	}
	return core.FuncSource{N: len(cases), F: func(i int) core.Result {
		c := cases[i]
		rules := lists[c.list]
		args := append([]string{"-rt"}, c13Args(rules, c.list)...)
		sc := &syncCase{Arr: c.arr, Args: args, Src: trees[c.tree], Form: "contents"}
		res := core.Result{Case: fmt.Sprintf("rules=%v tree=%d %s", rules, c.tree, sc.String())}
		sr, err := sc.run(false)
		defer cleanup(sr.Dir)
		if err != nil {
			res.Inconcl = err.Error()
			return res
		}
		cnt(&res, "transitions", 1)
		cnt(&res, "traces_validated_against_impl", 1)
		dir := "pull"
		if c.arr == drive.DaemonPush || c.arr == drive.LibPush || c.arr == drive.Local {
			dir = "client-sends"
		}
		hasIncl, hasExcl := false, false
		for _, r := range rules {
			if r.include {
				hasIncl = true
			} else {
				hasExcl = true
			}
		}
		ff := []string{"arr", c.arr, "direction", dir, "has_include", fmt.Sprint(hasIncl), "has_exclude", fmt.Sprint(hasExcl)}
		if !sr.Out.OK() {
			res.Fail = core.Fail("session_failed", sr.Out.ErrString()+" | "+tail(sr.Out.Stderr, 300), ff...)
			return res
		}
		want := c13Expected(trees[c.tree], rules)
		cnt(&res, "states", int64(len(trees[c.tree])))
		fields := tm.Fields{}
		if d := tm.Diff(want, sr.After, fields); len(d) > 0 {
			missing, extra := 0, 0
			for _, l := range d {
				if strings.HasPrefix(l, "- ") {
					missing++
				}
				if strings.HasPrefix(l, "+ ") {
					extra++
				}
			}
			sym := "selection_differs"
			switch {
			case missing > 0 && extra == 0:
				sym = "entries_wrongly_left_out"
			case extra > 0 && missing == 0:
				sym = "excluded_entries_transferred"
			}
			res.Fail = core.Fail(sym, fmt.Sprintf("rules %v: %s", rules, trunc(strings.Join(d, " ; "), 500)), ff...)
			return res
		}
		res.Nontrivial = len(want) != len(trees[c.tree])
		res.Outcome = fmt.Sprintf("ok/filtered=%v", res.Nontrivial)
		return res
	}}
}

// c13Match is the reference matcher for rules without wildcards (rsync's
// exclude.c semantics): a trailing slash restricts the rule to directories, a
// leading slash anchors it at the transfer root, a rule containing a slash
// matches the tail of the path on a component boundary, a plain name matches
// the last component.
func c13Match(pat, p string, isDir bool) bool {
	if strings.HasSuffix(pat, "/") && len(pat) > 1 {
		if !isDir {
			return false
		}
		pat = strings.TrimSuffix(pat, "/")
	}
	if !strings.Contains(pat, "/") {
		return pat == path.Base(p)
	}
	if strings.HasPrefix(pat, "/") {
		return pat[1:] == p
	}
	return p == pat || strings.HasSuffix(p, "/"+pat)
}

func c13ExpectedShapes(src tm.Tree, rules []c13Rule) tm.Tree {
	excluded := func(p string, isDir bool) bool {
		for _, r := range rules {
			if c13Match(r.name, p, isDir) {
				return !r.include
			}
		}
		return false
	}
	var out tm.Tree
	for _, e := range src {
		parts := strings.Split(e.Path, "/")
		excl := false
		for i := 1; i <= len(parts); i++ {
			q := strings.Join(parts[:i], "/")
			if excluded(q, i < len(parts) || e.Type == tm.Dir) {
				excl = true
				break
			}
		}
		if !excl {
			out = append(out, e)
		}
	}
	return out
}

// c13BuildShapes: rules with a trailing slash, a leading slash or a slash
// inside. The implementation may honour them (rsync semantics) or refuse them;
// a session that succeeds with any other selection is a violation.
func c13BuildShapes(tier string) core.Source {
	drive.Quiet()
	f := func(p string) tm.Entry { return tm.File(p, []byte("data:"+p), 0o644, tm.Past) }
	d := func(p string) tm.Entry { return tm.D(p, 0o755, tm.Past) }
	// the names b and d occur as file and as directory
	tree := tm.Tree{f("a"), f("b"), d("d"), f("d/a"), d("d/b"), f("d/b/x"), f("d/c"), d("d/d"), f("d/d/a"), f("d/d/b"), d("d/e"), f("d/e/zz"), d("e"), f("e/b"), f("e/c"), f("e/d"), f("zzz")}
	pats := []string{"a/", "b/", "d/", "e/", "/a", "/b", "/d", "/zz", "d/a", "d/b", "d/d", "e/b", "b/x", "/d/a", "/d/d/", "d/d/", "/e/", "/d/b", "b", "d"}
	if tier != "thorough" {
		pats = []string{"b/", "d/", "/a", "/b", "/d", "d/a", "d/b", "d/d", "/d/d/", "d/d/", "b", "d"}
	}
	var pool []c13Rule
	for _, n := range pats {
		pool = append(pool, c13Rule{false, n}, c13Rule{true, n})
	}
	var lists [][]c13Rule
	for _, a := range pool {
		lists = append(lists, []c13Rule{a})
		for _, b := range pool {
			if a.name != b.name {
				lists = append(lists, []c13Rule{a, b})
			}
		}
	}
	type cs struct {
		list int
		arr  string
		del  bool
	}
	var cases []cs
	for li := range lists {
		for _, arr := range drive.Arrangements {
			cases = append(cases, cs{li, arr, false})
		}
	}
	return core.FuncSource{N: len(cases), F: func(i int) core.Result {
		c := cases[i]
		rules := lists[c.list]
		args := append([]string{"-rt"}, c13Args(rules, c.list)...)
		sc := &syncCase{Arr: c.arr, Args: args, Src: tree, Form: "contents"}
		res := core.Result{Case: fmt.Sprintf("rule shapes=%v %s", rules, sc.String())}
		sr, err := sc.run(false)
		defer cleanup(sr.Dir)
		if err != nil {
			res.Inconcl = err.Error()
			return res
		}
		cnt(&res, "transitions", 1)
		cnt(&res, "traces_validated_against_impl", 1)
		cnt(&res, "states", int64(len(tree)))
		if !sr.Out.OK() {
			// refused: allowed for syntax the implementation cannot honour, provided nothing else happened
			res.Outcome = "refused"
			return res
		}
		want := c13ExpectedShapes(tree, rules)
		if d := tm.Diff(want, sr.After, tm.Fields{}); len(d) > 0 {
			shape := "path"
			switch {
			case strings.HasSuffix(rules[0].name, "/"):
				shape = "dir-only"
			case strings.HasPrefix(rules[0].name, "/"):
				shape = "anchored"
			}
			res.Fail = core.Fail("selection_differs", fmt.Sprintf("rules %v were accepted but the selection is not the one they denote: %s", rules, trunc(strings.Join(d, " ; "), 500)), "part", "shapes", "arr", c.arr, "first_rule_shape", shape)
			return res
		}
		res.Nontrivial = len(want) != len(tree)
		res.Outcome = fmt.Sprintf("honoured/filtered=%v", res.Nontrivial)
		return res
	}}
}

// c13BuildUnsupported: rule syntax the implementation cannot honour must
// produce an error (and no crash), never a silently different selection.
func c13BuildUnsupported(tier string) core.Source {
	drive.Quiet()
	pats := []string{"*.o", "[ab]", "a?", "*", "d/*"}
	tree := c13Trees()[1]
	type cs struct {
		pat     string
		arr     string
		include bool
	}
	var cases []cs
	for _, p := range pats {
		for _, arr := range drive.Arrangements {
			cases = append(cases, cs{p, arr, false}, cs{p, arr, true})
		}
	}
	return core.FuncSource{N: len(cases), F: func(i int) core.Result {
		c := cases[i]
		arg := "--exclude=" + c.pat
		if c.include {
			arg = "--include=" + c.pat
		}
		sc := &syncCase{Arr: c.arr, Args: []string{"-rt", arg}, Src: tree, Form: "contents"}
		res := core.Result{Case: "unsupported rule syntax: " + sc.String()}
		sr, err := sc.run(false)
		defer cleanup(sr.Dir)
		if err != nil {
			res.Inconcl = err.Error()
			return res
		}
		cnt(&res, "transitions", 1)
		cnt(&res, "states", 1)
		cnt(&res, "traces_validated_against_impl", 1)
		if sr.Out.OK() {
			res.Fail = core.Fail("unsupported_rule_silently_accepted", fmt.Sprintf("%s: session reported success; destination has %d entries", arg, len(sr.After)), "arr", c.arr)
			return res
		}
		res.Nontrivial = true
		res.Outcome = "error-reported"
		return res
	}}
}

func init() {
	core.Register(&core.Prop{
		ID:    "C13",
		Level: "model_checking",
		Rule: "lists: every rule list of length 0..2 (thorough 0..3) over {exclude, include} x names {a,b,c,d,e,zz} (files and directories in every sort position and at several depths; zz never matches at top level), spelled with --exclude/--include and -f, on 3 trees (flat, nested, depth 3 with recurring names) in all 5 arrangements; the destination entry set and bytes must equal the reference filter (first rule whose name equals the base name decides; excluded directory => subtree absent). shapes: every rule list of length 1..2 over {exclude, include} x rules with a trailing slash (directories only), a leading slash (anchored) or a slash inside (path tail), on a tree where names occur both as file and as directory, in all 5 arrangements: the session must either be refused or produce exactly the selection the rules denote. unsupported: wildcard patterns must make the session fail without crashing. " +
			"states = source entries judged, transitions = sessions; non-trivial = rule list that filters at least one entry",
		Assum: []string{"plain-name rules only (no '/', no wildcard) as the property states"},
		Parts: func(tier string) []core.Part {
			return []core.Part{{Name: "lists", Build: c13BuildLists}, {Name: "shapes", Build: c13BuildShapes}, {Name: "unsupported", Build: c13BuildUnsupported}}
		},
	})
}
