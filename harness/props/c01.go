package props

import (
	"bytes"
	"context"
	"encoding/json"
	"fmt"
	"io"
	"net"
	"os"
	"os/exec"
	"path/filepath"
	"strings"
	"time"
	"unicode/utf8"

	"github.com/gokrazy/rsync/rsyncd"
	"github.com/gokrazy/rsync/verifharness/core"
	"github.com/gokrazy/rsync/verifharness/drive"
	tm "github.com/gokrazy/rsync/verifharness/treemodel"
)

// C01 — a successful sync leaves destination files byte-identical to the source.

var c01Names = []string{"plain", "with space", "-dash", "*glob?[x]", "new\nline", "ünï", "\xff\xfe\x80", "--", "semi;colon$HOME`x`", strings.Repeat("L", 200)}
var c01Dirs = []string{"", "sub/", "sub/deep/", "sub/deep/er/", "n\xffn-utf8/"}

const (
	pvAbsent = iota
	pvIdentSameMtime
	pvIdentOtherMtime
	pvOtherSameMtime
	pvOtherOtherMtime
	pvEmptied
	pvTruncHalf
	pvExtended
	pvFlipFirst
	pvFlipLast
	pvFlipMid
	pvInsertFront
	pvSymlinkInWay
	pvDirInWay
	pvFifoInWay
	pvSwapBlocks
	pvFlip699
	pvFlip700
	pvExtendedSameMtime
	pvTruncSameMtime
	nPV
)

var pvNames = []string{"absent", "ident-same-mtime", "ident-other-mtime", "othercontent-same-mtime", "othercontent-other-mtime", "emptied", "trunc-half", "extended", "flip-first", "flip-last", "flip-mid", "insert-front", "symlink-in-way", "dir-in-way", "fifo-in-way", "swap-blocks", "flip-699", "flip-700", "extended-same-mtime", "trunc-same-mtime"}

type c01File struct {
	path    string
	size    int
	fam, pv int
	data    []byte
}

// c01Matrix builds source and prior-destination trees for the given sizes/families.
func c01Matrix(sizes []int, fams []int) (src, dst tm.Tree, files []c01File) {
	seenDir := map[string]bool{}
	addDirs := func(t *tm.Tree, p string, seen map[string]bool) {
		parts := strings.Split(p, "/")
		for i := 1; i < len(parts); i++ {
			d := strings.Join(parts[:i], "/")
			if !seen[d] {
				seen[d] = true
				*t = append(*t, tm.D(d, 0o755, tm.Past-50))
			}
		}
	}
	seenDst := map[string]bool{}
	k := 0
	for _, fam := range fams {
		for _, size := range sizes {
			for pv := 0; pv < nPV; pv++ {
				// skip degenerate combinations
				switch pv {
				case pvOtherSameMtime, pvOtherOtherMtime, pvEmptied, pvTruncHalf, pvFlipFirst, pvFlipLast, pvTruncSameMtime:
					if size == 0 {
						continue
					}
				case pvFlipMid:
					if size < 3 {
						continue
					}
				case pvSwapBlocks:
					if size < 1400 {
						continue
					}
				case pvFlip699:
					if size < 700 {
						continue
					}
				case pvFlip700:
					if size < 701 {
						continue
					}
				}
				name := fmt.Sprintf("%s.%d", c01Names[k%len(c01Names)], k)
				p := c01Dirs[(k/3)%len(c01Dirs)] + name
				data := genData(fam, size, uint32(k))
				mt := int64(tm.Past + k)
				addDirs(&src, p, seenDir)
				src = append(src, tm.File(p, data, 0o644, mt))
				files = append(files, c01File{path: p, size: size, fam: fam, pv: pv, data: data})
				other := int64(tm.Past - 1000 - k)
				var prior []byte
				pmt := other
				switch pv {
				case pvAbsent:
					k++
					continue
				case pvIdentSameMtime:
					prior, pmt = data, mt
				case pvIdentOtherMtime:
					prior = data
				case pvOtherSameMtime:
					prior, pmt = genData(fam, size, uint32(k)+7777), mt
					if bytes.Equal(prior, data) { // low-entropy families: force a difference
						prior = append([]byte{}, data...)
						prior[size/2] ^= 0x55
					}
				case pvOtherOtherMtime:
					prior = genData(fam, size, uint32(k)+7777)
					if bytes.Equal(prior, data) {
						prior = append([]byte{}, data...)
						prior[size/2] ^= 0x55
					}
				case pvEmptied:
					prior = []byte{}
				case pvTruncHalf:
					prior = data[:size/2]
				case pvExtended:
					prior = append(append([]byte{}, data...), genData(famHash, 100, uint32(k)+1)...)
				case pvExtendedSameMtime:
					prior, pmt = append(append([]byte{}, data...), genData(famHash, 100, uint32(k)+1)...), mt
				case pvTruncSameMtime:
					prior, pmt = data[:size/2], mt
				case pvFlipFirst, pvFlipLast, pvFlipMid, pvFlip699, pvFlip700:
					prior = append([]byte{}, data...)
					at := map[int]int{pvFlipFirst: 0, pvFlipLast: size - 1, pvFlipMid: size / 2, pvFlip699: 699, pvFlip700: 700}[pv]
					prior[at] ^= 0x01
				case pvInsertFront:
					prior = append([]byte{0x5a}, data...)
				case pvSwapBlocks:
					prior = append([]byte{}, data...)
					copy(prior[0:700], data[700:1400])
					copy(prior[700:1400], data[0:700])
				case pvSymlinkInWay:
					addDirs(&dst, p, seenDst)
					dst = append(dst, tm.L(p, "nowhere"))
					k++
					continue
				case pvDirInWay:
					addDirs(&dst, p, seenDst)
					dst = append(dst, tm.D(p, 0o755, other))
					k++
					continue
				case pvFifoInWay:
					addDirs(&dst, p, seenDst)
					dst = append(dst, tm.Entry{Path: p, Type: tm.Fifo, Mode: 0o644, Mtime: other})
					k++
					continue
				}
				addDirs(&dst, p, seenDst)
				dst = append(dst, tm.File(p, prior, 0o600, pmt))
				k++
			}
		}
	}
	return
}

type c01Case struct {
	arr   string
	args  []string
	form  string
	group int // which matrix
}

func c01Check(sc *syncCase, files []c01File, src2files []c01File) core.Result {
	res := core.Result{Case: sc.String()}
	sr, err := sc.run(true)
	defer cleanup(sr.Dir)
	if err != nil {
		res.Inconcl = err.Error()
		return res
	}
	e := effective(sc.Args)
	feats := []string{"arr", sc.Arr, "form", strings.SplitN(sc.Form, ":", 2)[0]}
	if strings.HasPrefix(sc.Form, "file:") {
		rel := strings.TrimPrefix(sc.Form, "file:")
		feats = append(feats, "argname", argNameClass(rel), "nested", fmt.Sprint(strings.Contains(rel, "/")))
	}
	if sc.Tag != "" {
		feats = append(feats, "tag", sc.Tag)
	}
	if !sr.Out.OK() {
		res.Outcome = "error"
		res.Fail = core.Fail("session_failed", sr.Out.ErrString()+"\nstderr tail: "+tail(sr.Out.Stderr, 400), feats...)
		return res
	}
	after := map[string]*tm.Entry{}
	for i := range sr.After {
		after[sr.After[i].Path] = &sr.After[i]
	}
	before := map[string]*tm.Entry{}
	for i := range sr.Before {
		before[sr.Before[i].Path] = &sr.Before[i]
	}
	checked, skippedOK, replaced := 0, 0, 0
	check := func(f c01File, dpath string, smtime int64) *core.Failure {
		checked++
		a := after[dpath]
		b := before[dpath]
		uptodate := false
		if b != nil && b.Type == tm.Reg && len(b.Data) == len(f.data) {
			switch {
			case e.c:
				uptodate = bytes.Equal(b.Data, f.data)
			case e.I:
				uptodate = false
			default:
				uptodate = b.Mtime == smtime
			}
		}
		ff := append([]string{"prior", pvNames[f.pv], "srcsize", sizeClass(f.size)}, feats...)
		if a == nil || a.Type != tm.Reg {
			return core.Fail("file_missing", fmt.Sprintf("%q (size %d, prior %s): not a regular file at destination after success", dpath, f.size, pvNames[f.pv]), ff...)
		}
		if uptodate {
			skippedOK++
			if !bytes.Equal(a.Data, b.Data) {
				return core.Fail("uptodate_file_changed", fmt.Sprintf("%q: update rule says up to date but content changed", dpath), ff...)
			}
			return nil
		}
		replaced++
		if !bytes.Equal(a.Data, f.data) {
			return core.Fail("content_mismatch", fmt.Sprintf("%q (size %d fam %s prior %s): destination has %d bytes, first difference at %d", dpath, f.size, famNames[f.fam], pvNames[f.pv], len(a.Data), firstDiff(a.Data, f.data)), ff...)
		}
		return nil
	}
	switch {
	case strings.HasPrefix(sc.Form, "file:"):
		rel := strings.TrimPrefix(sc.Form, "file:")
		for _, f := range files {
			if f.path == rel {
				base := rel[strings.LastIndex(rel, "/")+1:]
				if fl := check(f, base, sc.Src.Find(rel).Mtime); fl != nil {
					res.Fail = fl
					return res
				}
			}
		}
	case sc.Form == "two-noslash":
		if e.r {
			for _, f := range files {
				if fl := check(f, "src/"+f.path, sc.Src.Find(f.path).Mtime); fl != nil {
					res.Fail = fl
					return res
				}
			}
			for _, f := range src2files {
				if fl := check(f, "src2/"+f.path, sc.Src2.Find(f.path).Mtime); fl != nil {
					res.Fail = fl
					return res
				}
			}
		}
	case strings.HasPrefix(sc.Form, "two-files:"):
		rel := strings.TrimPrefix(sc.Form, "two-files:")
		for _, f := range files {
			if f.path == rel {
				if fl := check(f, rel[strings.LastIndex(rel, "/")+1:], sc.Src.Find(rel).Mtime); fl != nil {
					res.Fail = fl
					return res
				}
			}
		}
		for _, f := range src2files {
			if f.path == "second-1" {
				if fl := check(f, "second-1", sc.Src2.Find("second-1").Mtime); fl != nil {
					res.Fail = fl
					return res
				}
			}
		}
	case strings.HasPrefix(sc.Form, "sub"):
		rel := sc.Form[strings.Index(sc.Form, ":")+1:] + "/"
		if e.r {
			for _, f := range files {
				if !strings.HasPrefix(f.path, rel) {
					continue
				}
				if fl := check(f, sr.Prefix+strings.TrimPrefix(f.path, rel), sc.Src.Find(f.path).Mtime); fl != nil {
					res.Fail = fl
					return res
				}
			}
			for p := range after {
				legit := strings.HasPrefix(sc.Form, "subdir:") && !strings.Contains(strings.TrimSuffix(rel, "/"), "/")
				if strings.HasPrefix(p, "src/") || (strings.HasPrefix(p, rel) && !legit) {
					res.Fail = core.Fail("entry_at_wrong_place", fmt.Sprintf("%q exists at the destination: the source's parent directories were reproduced", p), feats...)
					return res
				}
			}
		}
	default:
		if e.r {
			for _, f := range files {
				if fl := check(f, sr.Prefix+f.path, sc.Src.Find(f.path).Mtime); fl != nil {
					res.Fail = fl
					return res
				}
			}
			for _, f := range src2files {
				if fl := check(f, f.path, sc.Src2.Find(f.path).Mtime); fl != nil {
					res.Fail = fl
					return res
				}
			}
		}
	}
	res.Outcome = fmt.Sprintf("ok/checked>0=%v/skipped>0=%v/replaced>0=%v", checked > 0, skippedOK > 0, replaced > 0)
	res.Nontrivial = replaced > 0
	cnt(&res, "files_checked", int64(checked))
	cnt(&res, "transitions", 1)
	cnt(&res, "states", int64(checked))
	cnt(&res, "traces_validated_against_impl", 1)
	return res
}

func argNameClass(rel string) string {
	if !utf8.ValidString(rel) {
		return "invalid-utf8"
	}
	return "valid-utf8"
}

func sizeClass(n int) string {
	switch {
	case n == 0:
		return "0"
	case n < 700:
		return "lt700"
	default:
		return "ge700"
	}
}

func firstDiff(a, b []byte) int {
	n := min(len(a), len(b))
	for i := 0; i < n; i++ {
		if a[i] != b[i] {
			return i
		}
	}
	return n
}

func tail(s string, n int) string {
	if len(s) > n {
		return s[len(s)-n:]
	}
	return s
}

func init() {
	core.Register(&core.Prop{
		ID:    "C01",
		Level: "model_checking",
		Rule: "part matrix: every (option subset of {-l,-p,-t,-g,-o,-D,-c,-I,-a} with -r) x arrangement {daemon-pull, daemon-push, local, lib-pull, lib-push} is a real session over a tree holding the full product size x content family x prior-destination variant (absent, identical, edited, truncated, extended, other type in the way, ...); part forms: source forms (directory itself, single file, two sources, no -r) x option sets x arrangements; part forms also covers two prefix-named directories (src, src2) named without trailing slash and a file from each, directories and their contents below the source root (module/sub/dir, module/sub/dir/); part cli: the gokr-rsync command in its own process with its default landlock sandbox, for 8 ways of naming the source (dir/, dir, file, two sources, nested directory, nested file, ./dir, path with ..) x {-r,-a,-rt,-d} x {local copy, push to and pull from a daemon on a loopback socket}: exit status 0 and every expected file present with the source's bytes; part big: sizes around the 256 KiB chunk/window (thorough: 12 boundary sizes up to 3 MiB x 6 families); part histories: explicit-state BFS (depth 2, thorough 3) over edits on either side (4 contents incl. empty and same-size twins, deletes, symlink/directory in the way) and real syncs with 4 option sets x 5 arrangements, so that prior destination states are reached by earlier syncs. " +
			"states = regular files whose destination bytes were compared with the reference update rule, transitions = sessions; a case is non-trivial when at least one file was actually replaced",
		Assum: []string{"tmpfs scratch behaves like a POSIX file system", "sessions run as root"},
		Parts: func(tier string) []core.Part {
			return []core.Part{
				{Name: "matrix", Build: c01BuildMatrix},
				{Name: "forms", Build: c01BuildForms},
				{Name: "cli", Build: c01BuildCLI},
				{Name: "big", Build: c01BuildBig},
				{Name: "longname", Build: c01BuildLongName},
				{Name: "histories", Build: c01BuildHistories},
			}
		},
	})
}

var c01SmallSizes = []int{0, 1, 2, 699, 700, 701, 1399, 1400, 1401, 2100}

func c01BuildMatrix(tier string) core.Source {
	drive.Quiet()
	fams := []int{famHash, famFF}
	if tier == "thorough" {
		fams = []int{famHash, famFF, famZero, famP7, famText, famP701}
	}
	src, dst, files := c01Matrix(c01SmallSizes, fams)
	var cases []c01Case
	for mask := 0; mask < 512; mask++ {
		args := subsetArgs("lptgoDcIa", mask, "r")
		for _, arr := range drive.Arrangements {
			cases = append(cases, c01Case{arr: arr, args: args, form: "contents"})
		}
	}
	return core.FuncSource{N: len(cases), F: func(i int) core.Result {
		c := cases[i]
		return c01Check(&syncCase{Arr: c.arr, Args: c.args, Src: src, Dst: dst, Form: c.form}, files, nil)
	}}
}

func c01BuildForms(tier string) core.Source {
	drive.Quiet()
	src, dst, files := c01Matrix([]int{0, 1, 700, 1401}, []int{famHash})
	// second source with disjoint names
	var src2 tm.Tree
	var files2 []c01File
	for i, size := range []int{0, 5, 1400} {
		p := fmt.Sprintf("second-%d", i)
		d := genData(famText, size, uint32(900+i))
		src2 = append(src2, tm.File(p, d, 0o644, tm.Past+5000+int64(i)))
		files2 = append(files2, c01File{path: p, size: size, fam: famText, pv: pvAbsent, data: d})
	}
	optsets := [][]string{{"-r"}, {"-rt"}, {"-a"}, {"-rc"}, {"-rtI"}, nil, {"-t"}, {"-lptgoD"}}
	var cases []c01Case
	var singles []string
	for _, f := range files {
		// single-file sources: one per prior variant, plain names only (the name travels as an argument)
		// (names with a newline cannot travel as a daemon argument line; they are covered inside directories)
		if f.size == 700 || (f.size == 0 && f.pv == pvExtended) || (f.size == 1 && f.pv <= pvIdentOtherMtime) {
			if !strings.ContainsAny(f.path, "\n") {
				singles = append(singles, f.path)
			}
		}
	}
	for _, args := range optsets {
		for _, arr := range drive.Arrangements {
			cases = append(cases, c01Case{arr: arr, args: args, form: "dir"})
			if arr != drive.DaemonPull {
				cases = append(cases, c01Case{arr: arr, args: args, form: "two"})
				cases = append(cases, c01Case{arr: arr, args: args, form: "two-noslash"})
				for _, s := range singles {
					// a file directly in src/: its parent directory's path is a prefix of src2's
					if !strings.Contains(s, "/") {
						cases = append(cases, c01Case{arr: arr, args: args, form: "two-files:" + s})
						break
					}
				}
			}
			for _, s := range singles {
				cases = append(cases, c01Case{arr: arr, args: args, form: "file:" + s})
			}
			if has(args, 'r', "") || has(args, 'a', "") {
				for _, rel := range []string{"sub", "sub/deep"} {
					cases = append(cases, c01Case{arr: arr, args: args, form: "subdir:" + rel}, c01Case{arr: arr, args: args, form: "subcontents:" + rel})
				}
			}
		}
	}
	return core.FuncSource{N: len(cases), F: func(i int) core.Result {
		c := cases[i]
		sc := &syncCase{Arr: c.arr, Args: c.args, Src: src, Dst: dst, Form: c.form}
		if c.form == "two" {
			sc.Src2 = src2
			return c01Check(sc, files, files2)
		}
		if c.form == "two-noslash" || strings.HasPrefix(c.form, "two-files:") {
			sc.Src2 = src2
			sc.Dst = nil
			return c01Check(sc, files, files2)
		}
		if strings.HasPrefix(c.form, "sub") {
			// prior destination: the entries below the directory, where they are going to land
			rel := c.form[strings.Index(c.form, ":")+1:]
			prefix := ""
			if strings.HasPrefix(c.form, "subdir:") {
				prefix = rel[strings.LastIndex(rel, "/")+1:] + "/"
			}
			var d2 tm.Tree
			for _, e := range dst {
				if e.Path == rel && prefix != "" {
					e.Path = strings.TrimSuffix(prefix, "/")
					d2 = append(d2, e)
				} else if strings.HasPrefix(e.Path, rel+"/") {
					e.Path = prefix + strings.TrimPrefix(e.Path, rel+"/")
					d2 = append(d2, e)
				}
			}
			sc.Dst = d2
		}
		if strings.HasPrefix(c.form, "file:") {
			// destination for a single file: flat
			rel := strings.TrimPrefix(c.form, "file:")
			var d2 tm.Tree
			if pe := dst.Find(rel); pe != nil {
				e := *pe
				e.Path = rel[strings.LastIndex(rel, "/")+1:]
				d2 = tm.Tree{e}
			}
			sc.Dst = d2
		}
		return c01Check(sc, files, nil)
	}}
}

// c01RunCLI runs the gokr-rsync command line in a child process (the harness
// binary re-executed as the command), with the command's default sandboxing.
func c01RunCLI(dir string, args []string) (rc int, stderr string) {
	js, _ := json.Marshal(args)
	cmd := exec.Command(os.Args[0], "-test.run=^TestEntry$")
	cmd.Env = append(os.Environ(), "VCHECK_CLI="+string(js), "VCHECK_WORKER=", "VCHECK_ARGS=")
	cmd.Dir = dir
	var eb bytes.Buffer
	cmd.Stderr = &eb
	cmd.Stdout = &eb
	done := make(chan error, 1)
	if err := cmd.Start(); err != nil {
		return -1, err.Error()
	}
	go func() { done <- cmd.Wait() }()
	select {
	case err := <-done:
		if err != nil {
			if ee, ok := err.(*exec.ExitError); ok {
				return ee.ExitCode(), eb.String()
			}
			return -1, err.Error()
		}
		return 0, eb.String()
	case <-time.After(60 * time.Second):
		cmd.Process.Kill()
		<-done
		return -2, "timeout\n" + eb.String()
	}
}

// c01BuildCLI: the command itself, in its own process and with its default
// sandboxing (landlock), for every way of naming the source: local copies and
// transfers from/to a daemon on a loopback socket.
func c01BuildCLI(tier string) core.Source {
	drive.Quiet()
	type cs struct {
		mode string // local, push, pull
		form string // contents, dir, file, two, nested-dir, nested-file, relative
		args []string
	}
	var cases []cs
	for _, mode := range []string{"local", "push", "pull"} {
		for _, form := range []string{"contents", "dir", "file", "two", "nested-dir", "nested-file", "relative-dir", "relative-file"} {
			for _, args := range [][]string{{"-r"}, {"-a"}, {"-rt"}, {"-d"}} {
				if mode == "pull" && (form == "two" || strings.HasPrefix(form, "relative")) {
					continue
				}
				cases = append(cases, cs{mode, form, args})
			}
		}
	}
	f := func(p string, n int, salt uint32) tm.Entry {
		return tm.File(p, genData(famText, n, salt), 0o644, tm.Past)
	}
	src := tm.Tree{f("a", 40, 1), f("b", 1500, 2), tm.D("sub", 0o755, tm.Past), f("sub/c", 10, 3), tm.D("sub/deep", 0o755, tm.Past), f("sub/deep/d", 700, 4)}
	src2 := tm.Tree{f("second", 33, 5)}
	return core.FuncSource{N: len(cases), F: func(i int) core.Result {
		c := cases[i]
		res := core.Result{Case: fmt.Sprintf("command in its own process: mode=%s source-form=%s args=%v", c.mode, c.form, c.args)}
		ff := []string{"part", "cli", "mode", c.mode, "form", c.form}
		dir := workDir()
		defer cleanup(dir)
		src.Materialise(filepath.Join(dir, "src"))
		src2.Materialise(filepath.Join(dir, "src2"))
		dst := filepath.Join(dir, "dst")
		os.MkdirAll(dst, 0o755)
		// expected destination entries for recursive options: map of dest path -> source path
		var sources []string
		prefix, sub := "", ""
		switch c.form {
		case "contents":
			sources = []string{"src/"}
		case "dir":
			sources, prefix = []string{"src"}, "src/"
		case "file":
			sources, sub = []string{"src/b"}, "b"
		case "two":
			sources = []string{"src/", "src2/"}
		case "nested-dir":
			sources, prefix, sub = []string{"src/sub"}, "sub/", "sub"
		case "nested-file":
			sources, sub = []string{"src/sub/deep/d"}, "sub/deep/d"
		case "relative-dir":
			sources, prefix = []string{"./src"}, "src/"
		case "relative-file":
			sources, sub = []string{"src/../src/a"}, "a"
		}
		e := effective(c.args)
		want := map[string]string{}
		isFileForm := strings.HasSuffix(c.form, "file")
		for _, s := range src {
			if s.Type != tm.Reg {
				continue
			}
			rel := s.Path
			switch {
			case isFileForm:
				if rel != sub {
					continue
				}
				want[filepath.Base(rel)] = rel
				continue
			case sub != "":
				if !strings.HasPrefix(rel, sub+"/") {
					continue
				}
				rel = strings.TrimPrefix(rel, sub+"/")
			}
			depth := strings.Count(prefix+rel, "/")
			switch {
			case e.r:
				want[prefix+rel] = s.Path
			case has(c.args, 'd', ""):
				// --dirs: the named directory (no slash) alone, or the immediate entries of dir/
				if prefix == "" && depth == 0 {
					want[rel] = s.Path
				}
			}
		}
		if c.form == "two" && (e.r || has(c.args, 'd', "")) {
			want["second"] = "!second"
		}
		var args []string
		args = append(args, c.args...)
		var srv *rsyncd.Server
		var ln net.Listener
		if c.mode != "local" {
			var err error
			mods := []rsyncd.Module{{Name: "w", Path: dst, Writable: true}, {Name: "m", Path: dir}}
			srv, err = rsyncd.NewServer(mods, rsyncd.DontRestrict(), rsyncd.WithStderr(io.Discard), rsyncd.WithLogger(nullLogger{}))
			if err != nil {
				res.Inconcl = err.Error()
				return res
			}
			ln, err = net.Listen("tcp", "127.0.0.1:0")
			if err != nil {
				res.Inconcl = err.Error()
				return res
			}
			ctx, cancel := context.WithCancel(context.Background())
			defer cancel()
			defer ln.Close()
			go srv.Serve(ctx, ln)
		}
		switch c.mode {
		case "local":
			args = append(append(args, sources...), "dst/")
		case "push":
			args = append(append(args, sources...), fmt.Sprintf("rsync://%s/w/", ln.Addr()))
		case "pull":
			args = append(args, fmt.Sprintf("rsync://%s/m/%s", ln.Addr(), sources[0]), "dst/")
		}
		rc, stderr := c01RunCLI(dir, args)
		cnt(&res, "transitions", 1)
		cnt(&res, "traces_validated_against_impl", 1)
		if rc != 0 {
			res.Fail = core.Fail("session_failed", fmt.Sprintf("exit status %d: %s", rc, tail(stderr, 400)), ff...)
			return res
		}
		after, _ := tm.Snapshot(dst, true)
		cnt(&res, "states", int64(len(want)))
		for dp, sp := range want {
			var data []byte
			if sp == "!second" {
				data = src2.Find("second").Data
			} else {
				data = src.Find(sp).Data
			}
			a := after.Find(dp)
			if a == nil || a.Type != tm.Reg {
				res.Fail = core.Fail("file_missing", fmt.Sprintf("the command exited 0 but %q is not at the destination (destination has %d entries); output: %s", dp, len(after), tail(stderr, 300)), ff...)
				return res
			}
			if !bytes.Equal(a.Data, data) {
				res.Fail = core.Fail("content_mismatch", dp, ff...)
				return res
			}
		}
		res.Nontrivial = len(want) > 0
		res.Outcome = fmt.Sprintf("ok/files>0=%v", len(want) > 0)
		return res
	}}
}

func c01BuildBig(tier string) core.Source {
	drive.Quiet()
	sizes := []int{262143, 262144, 262145, 489999, 490000, 490001, 491401, 524287, 524289, 786433, 1<<20 + 1, 3<<20 + 17}
	fams := []int{famHash, famZero, famP7, famP701, famFF, famText}
	argsets := [][]string{{"-r"}, {"-rt"}, {"-a"}, {"-rc"}, {"-rtI"}}
	if tier != "thorough" {
		// quick: the sizes around the 256 KiB chunk/window and one multi-window size, two content families
		sizes = []int{262144, 262145, 786433}
		fams = []int{famHash, famZero}
		argsets = [][]string{{"-rt"}, {"-rc"}}
	}
	type bc struct {
		size, fam int
		arr       string
		args      []string
	}
	var cases []bc
	for _, size := range sizes {
		for _, fam := range fams {
			for _, arr := range drive.Arrangements {
				for _, args := range argsets {
					cases = append(cases, bc{size, fam, arr, args})
				}
			}
		}
	}
	return core.FuncSource{N: len(cases), F: func(i int) core.Result {
		c := cases[i]
		src, dst, files := c01Matrix([]int{c.size}, []int{c.fam})
		r := c01Check(&syncCase{Arr: c.arr, Args: c.args, Src: src, Dst: dst, Form: "contents"}, files, nil)
		r.Case = fmt.Sprintf("size=%d fam=%s %s", c.size, famNames[c.fam], r.Case)
		return r
	}}
}

func c01BuildLongName(tier string) core.Source {
	drive.Quiet()
	type lc struct {
		n   int
		arr string
	}
	var cases []lc
	for _, n := range []int{200, 255} {
		for _, arr := range drive.Arrangements {
			cases = append(cases, lc{n, arr})
		}
	}
	return core.FuncSource{N: len(cases), F: func(i int) core.Result {
		c := cases[i]
		name := strings.Repeat("N", c.n)
		data := genData(famHash, 1000, 5)
		src := tm.Tree{tm.File(name, data, 0o644, tm.Past)}
		files := []c01File{{path: name, size: 1000, fam: famHash, pv: pvAbsent, data: data}}
		r := c01Check(&syncCase{Arr: c.arr, Args: []string{"-rt"}, Src: src, Form: "contents", Tag: fmt.Sprintf("namelen%d", c.n)}, files, nil)
		r.Case = fmt.Sprintf("namelen=%d %s", c.n, r.Case)
		return r
	}}
}
