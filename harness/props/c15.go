package props

import (
	"bytes"
	"fmt"
	"io"
	"os"
	"path"
	"path/filepath"
	"sort"
	"strings"
	"time"

	"github.com/gokrazy/rsync/internal/progress"
	"github.com/gokrazy/rsync/internal/receiver"
	"github.com/gokrazy/rsync/internal/rsyncopts"
	"github.com/gokrazy/rsync/internal/rsyncos"
	"github.com/gokrazy/rsync/internal/rsyncwire"
	"github.com/gokrazy/rsync/verifharness/core"
	"github.com/gokrazy/rsync/verifharness/drive"
	"github.com/gokrazy/rsync/verifharness/peer"
	rp "github.com/gokrazy/rsync/verifharness/refproto"
	tm "github.com/gokrazy/rsync/verifharness/treemodel"
)

// C15 — the wire format conforms to rsync protocol 27.

func c15Pool(tier string) []rp.FEntry {
	long300 := "d/" + strings.Repeat("x", 100) + "/" + strings.Repeat("y", 197)
	p := []rp.FEntry{
		{Name: []byte("d"), Len: 4096, Mtime: 1234567890, Mode: rp.SIFDIR | 0o755, UID: 0, GID: 0},
		{Name: []byte("d/file-a"), Len: 0, Mtime: 1234567890, Mode: rp.SIFREG | 0o644, UID: 1000, GID: 100, Sum: rp.ListSum([]byte("a"))},
		{Name: []byte("d/file-b"), Len: 1<<31 - 1, Mtime: 1234567890, Mode: rp.SIFREG | 0o644, UID: 1000, GID: 100, Sum: rp.ListSum([]byte("b"))},
		{Name: []byte(long300), Len: 1 << 31, Mtime: -1, Mode: rp.SIFREG | 0o600, UID: 65534, GID: 65534, Sum: rp.ListSum([]byte("c"))},
		{Name: []byte("d/\xff\xfe"), Len: 1 << 40, Mtime: 0, Mode: rp.SIFREG | 0o4755, UID: 0, GID: 0, Sum: rp.ListSum([]byte("d"))},
		{Name: []byte("lnk"), Len: 18, Mtime: 1234567891, Mode: rp.SIFLNK | 0o777, UID: 1, GID: 2, Link: []byte("target/with spaces")},
		{Name: []byte("dev-null"), Len: 0, Mtime: 1234567892, Mode: rp.SIFCHR | 0o666, UID: 0, GID: 0, Rdev: 0x0103},
		{Name: []byte("dev-blk"), Len: 0, Mtime: 1234567892, Mode: rp.SIFBLK | 0o660, UID: 0, GID: 6, Rdev: 0x0103},
		{Name: []byte("fifo"), Len: 0, Mtime: -2147483648, Mode: rp.SIFIFO | 0o644, UID: 5, GID: 5},
		{Name: []byte("d/file-a.long"), Len: 7, Mtime: 2147483647, Mode: rp.SIFREG | 0o644, UID: 1000, GID: 100, Sum: rp.ListSum([]byte("e"))},
	}
	if tier == "thorough" {
		var comps []string
		for len(strings.Join(comps, "/")) < 4095-251 {
			comps = append(comps, strings.Repeat("z", 250))
		}
		n := strings.Join(comps, "/")
		n += "/" + strings.Repeat("w", 4095-len(n)-1)
		p = append(p, rp.FEntry{Name: []byte(n), Len: 3, Mtime: 5, Mode: rp.SIFREG | 0o644, Sum: rp.ListSum([]byte("f"))})
		p = append(p, rp.FEntry{Name: []byte("sock"), Len: 0, Mtime: 6, Mode: rp.SIFSOCK | 0o755, UID: 7, GID: 7})
	}
	return p
}

type c15Opt struct{ l, D, o, g, c bool }

func (o c15Opt) String() string {
	s := "-r"
	for _, x := range []struct {
		b bool
		c string
	}{{o.l, "l"}, {o.D, "D"}, {o.o, "o"}, {o.g, "g"}, {o.c, "c"}} {
		if x.b {
			s += x.c
		}
	}
	return s
}

func (o c15Opt) list() rp.ListOpts {
	return rp.ListOpts{UID: o.o, GID: o.g, Devices: o.D, Specials: o.D, Links: o.l, Checksum: o.c}
}

// applicable optional flags of e after prev under options o, as (flag, inherit) alternatives
func c15FlagChoices(e, prev *rp.FEntry, o rp.ListOpts) [][2]int {
	var opt []int
	if prev.Mode == e.Mode {
		opt = append(opt, rp.XmitSameMode)
	}
	if prev.Mtime == e.Mtime {
		opt = append(opt, rp.XmitSameTime)
	}
	if o.UID && prev.UID == e.UID {
		opt = append(opt, rp.XmitSameUID)
	}
	if o.GID && prev.GID == e.GID {
		opt = append(opt, rp.XmitSameGID)
	}
	m := e.Mode & rp.SIFMT
	isDevOrSpecial := m == rp.SIFCHR || m == rp.SIFBLK || m == rp.SIFIFO || m == rp.SIFSOCK
	if o.Devices && isDevOrSpecial && prev.Rdev == e.Rdev {
		opt = append(opt, rp.XmitSameRdev)
	}
	if len(e.Name) <= 255 {
		opt = append(opt, rp.XmitLongName) // a sender may always use the 4-byte length
	}
	common := 0
	for common < len(e.Name) && common < len(prev.Name) && common < 255 && e.Name[common] == prev.Name[common] {
		common++
	}
	if common == len(e.Name) && common > 0 {
		common-- // keep at least one byte to send
	}
	inherits := []int{0}
	if common > 0 {
		inherits = append(inherits, common)
		if common > 1 {
			inherits = append(inherits, 1)
		}
	}
	var out [][2]int
	for mask := 0; mask < 1<<len(opt); mask++ {
		f := 0
		for b, fl := range opt {
			if mask&(1<<b) != 0 {
				f |= fl
			}
		}
		for _, inh := range inherits {
			ff := f
			if inh > 0 {
				ff |= rp.XmitSameName
				if len(e.Name)-inh <= 255 && f&rp.XmitLongName == 0 {
					// fine: byte length
				}
			}
			if len(e.Name)-inh > 255 {
				ff |= rp.XmitLongName
			}
			out = append(out, [2]int{ff, inh})
		}
	}
	// dedup
	seen := map[[2]int]bool{}
	var d [][2]int
	for _, x := range out {
		if !seen[x] {
			seen[x] = true
			d = append(d, x)
		}
	}
	return d
}

// c15Decode feeds bytes to the real ReceiveFileList.
func c15Decode(raw []byte, o c15Opt) ([]*receiver.File, error) {
	rt := &receiver.Transfer{
		Logger: nullLogger{},
		Opts: &receiver.TransferOpts{PreserveUid: o.o, PreserveGid: o.g, PreserveLinks: o.l, PreserveDevices: o.D, PreserveSpecials: o.D, AlwaysChecksum: o.c,
			InfoGTE:  func(rsyncopts.InfoLevel, uint16) bool { return false },
			DebugGTE: func(rsyncopts.DebugLevel, uint16) bool { return false }},
		Env:      &rsyncos.Env{Stdout: io.Discard, Stderr: io.Discard},
		Conn:     &rsyncwire.Conn{Reader: bytes.NewReader(raw), Writer: io.Discard},
		Progress: progress.NewPrinter(io.Discard, time.Now),
	}
	return rt.ReceiveFileList()
}

func c15Compare(got []*receiver.File, sent []rp.FEntry, o c15Opt) string {
	want := rp.SortedIndex(sent)
	if len(got) != len(want) {
		return fmt.Sprintf("decoded %d entries, sent %d", len(got), len(want))
	}
	for i, w := range want {
		g := got[i]
		wname := path.Clean(string(w.Name))
		if g.Name != wname {
			return fmt.Sprintf("entry %d: name %q, want %q", i, trunc(g.Name, 80), trunc(wname, 80))
		}
		if g.Length != w.Len {
			return fmt.Sprintf("entry %d (%q): length %d, want %d", i, trunc(wname, 40), g.Length, w.Len)
		}
		if g.ModTime.Unix() != int64(w.Mtime) {
			return fmt.Sprintf("entry %d (%q): mtime %d, want %d", i, trunc(wname, 40), g.ModTime.Unix(), w.Mtime)
		}
		if g.Mode != w.Mode {
			return fmt.Sprintf("entry %d (%q): mode %o, want %o", i, trunc(wname, 40), g.Mode, w.Mode)
		}
		if o.o && g.Uid != w.UID {
			return fmt.Sprintf("entry %d (%q): uid %d, want %d", i, trunc(wname, 40), g.Uid, w.UID)
		}
		if o.g && g.Gid != w.GID {
			return fmt.Sprintf("entry %d (%q): gid %d, want %d", i, trunc(wname, 40), g.Gid, w.GID)
		}
		m := w.Mode & rp.SIFMT
		if o.D && (m == rp.SIFCHR || m == rp.SIFBLK) && g.Rdev != w.Rdev {
			return fmt.Sprintf("entry %d (%q): rdev %d, want %d", i, trunc(wname, 40), g.Rdev, w.Rdev)
		}
		if o.l && m == rp.SIFLNK && g.LinkTarget != string(w.Link) {
			return fmt.Sprintf("entry %d (%q): link %q, want %q", i, trunc(wname, 40), g.LinkTarget, w.Link)
		}
		if o.c && m == rp.SIFREG && g.Checksum != w.Sum {
			return fmt.Sprintf("entry %d (%q): checksum %x, want %x", i, trunc(wname, 40), g.Checksum, w.Sum)
		}
	}
	return ""
}

func c15BuildDecoder(tier string) core.Source {
	pool := c15Pool(tier)
	type cs struct {
		a, b int // pool indices (b = -1: single entry; a = -1: empty list)
		opt  c15Opt
	}
	var cases []cs
	for mask := 0; mask < 32; mask++ {
		o := c15Opt{mask&1 != 0, mask&2 != 0, mask&4 != 0, mask&8 != 0, mask&16 != 0}
		cases = append(cases, cs{-1, -1, o})
		for a := range pool {
			cases = append(cases, cs{a, -1, o})
			for b := range pool {
				if a != b {
					cases = append(cases, cs{a, b, o})
				}
			}
		}
	}
	return core.FuncSource{N: len(cases), F: func(i int) core.Result {
		c := cases[i]
		lo := c.opt.list()
		res := core.Result{Case: fmt.Sprintf("decoder: list=[%d,%d] of the entry pool, options %s, every applicable flag subset", c.a, c.b, c.opt)}
		zero := &rp.FEntry{}
		var lists []([]rp.FEntry)
		switch {
		case c.a < 0:
			lists = append(lists, nil)
		case c.b < 0:
			for _, ch := range c15FlagChoices(&pool[c.a], zero, lo) {
				e := pool[c.a]
				e.Flags, e.Inherit = ch[0], ch[1]
				lists = append(lists, []rp.FEntry{e})
				if e.Mode&rp.SIFMT == rp.SIFDIR {
					e.TopDir = true
					lists = append(lists, []rp.FEntry{e})
				}
			}
		default:
			first := pool[c.a]
			for _, ch := range c15FlagChoices(&pool[c.b], &first, lo) {
				e := pool[c.b]
				e.Flags, e.Inherit = ch[0], ch[1]
				lists = append(lists, []rp.FEntry{first, e})
			}
		}
		compressed := 0
		for _, l := range lists {
			fl := &rp.FList{Entries: l, Users: []rp.IDName{{ID: 1000, Name: "alice"}, {ID: 65534, Name: "nobody"}}, Groups: []rp.IDName{{ID: 100, Name: "users"}}}
			var w rp.W
			if err := rp.EncodeList(&w, fl, lo); err != nil {
				res.Inconcl = "harness: encoder refused: " + err.Error()
				return res
			}
			w.Buf([]byte("TRAILING-GARBAGE-MUST-NOT-BE-READ"))
			got, err := c15Decode(w.Bytes(), c.opt)
			cnt(&res, "transitions", 1)
			desc := ""
			for _, e := range l {
				desc += fmt.Sprintf("{%q flags=%#x inherit=%d} ", trunc(string(e.Name), 30), e.Flags, e.Inherit)
			}
			if err != nil {
				res.Fail = core.Fail("valid_list_rejected", fmt.Sprintf("%s opts %s: %v", desc, c.opt, err), "opts", c.opt.String())
				return res
			}
			if d := c15Compare(got, l, c.opt); d != "" {
				res.Fail = core.Fail("list_decoded_wrongly", fmt.Sprintf("%s opts %s: %s", desc, c.opt, d), "opts", c.opt.String())
				return res
			}
			for _, e := range l {
				if e.Flags&^rp.XmitLongName != 0 {
					compressed++
				}
			}
		}
		cnt(&res, "states", res.Counters["transitions"])
		cnt(&res, "traces_validated_against_impl", res.Counters["transitions"])
		res.Nontrivial = compressed > 0
		res.Outcome = fmt.Sprintf("ok/compressed>0=%v", compressed > 0)
		return res
	}}
}

// ---- encoder: the real sender's stream decoded by refproto and compared with the source tree

func c15Tree() tm.Tree {
	t := tm.Tree{
		tm.D("dir", 0o755, tm.Past),
		tm.File("dir/a.b", []byte("dot"), 0o644, tm.Past+1),
		tm.D("dir/a", 0o700, tm.Past+2),
		tm.File("dir/a/b", []byte("slash"), 0o600, tm.Past+3),
		tm.File("dir/a-", []byte("dash"), 0o444, tm.Past+4),
		tm.File("UPPER", []byte("upper"), 0o755, -5),
		tm.File("lower", []byte("lower"), 0o4755, 0),
		tm.File("n\x7f", []byte("del"), 0o644, 2147483647),
		tm.File("n\x80", []byte("hi"), 0o644, -2147483648),
		tm.File("empty", nil, 0o000, tm.Past),
		tm.L("lnk", "dir/a.b"),
		tm.L("dangling", "../nowhere/\xff"),
		{Path: "fifo", Type: tm.Fifo, Mode: 0o640, Mtime: tm.Past},
		{Path: "sock", Type: tm.Sock, Mode: 0o755, Mtime: tm.Past},
		{Path: "chr", Type: tm.Chr, Mode: 0o666, Mtime: tm.Past, Rdev: 0x0103},
		{Path: "blk", Type: tm.Blk, Mode: 0o660, Mtime: tm.Past, Rdev: 0x0801, Uid: 12345, Gid: 54321},
		tm.File(strings.Repeat("L", 200), []byte("long"), 0o644, tm.Past),
		// equal device numbers on non-neighbouring nodes; runs of equal mode/time/owner interrupted by other entries
		{Path: "same-a-null", Type: tm.Chr, Mode: 0o666, Mtime: tm.Past, Rdev: 0x0103},
		tm.File("same-b-file", []byte("between"), 0o666, tm.Past),
		{Path: "same-c-null", Type: tm.Chr, Mode: 0o666, Mtime: tm.Past, Rdev: 0x0103},
		{Path: "same-d-null", Type: tm.Chr, Mode: 0o666, Mtime: tm.Past, Rdev: 0x0103},
		tm.D("same-e-dir", 0o666, tm.Past),
		{Path: "same-f-blk", Type: tm.Blk, Mode: 0o666, Mtime: tm.Past, Rdev: 0x0103},
	}
	t[1].Uid, t[1].Gid = 1, 65534
	return t
}

func modeBits(e tm.Entry) int32 {
	m := int32(e.Mode & 0o7777)
	switch e.Type {
	case tm.Reg:
		m |= rp.SIFREG
	case tm.Dir:
		m |= rp.SIFDIR
	case tm.Link:
		m |= rp.SIFLNK
	case tm.Fifo:
		m |= rp.SIFIFO
	case tm.Sock:
		m |= rp.SIFSOCK
	case tm.Chr:
		m |= rp.SIFCHR
	case tm.Blk:
		m |= rp.SIFBLK
	}
	return m
}

// c15CheckList compares a decoded list with the source tree snapshot.
func c15CheckList(l *rp.FList, src tm.Tree, o c15Opt, prefix string) string {
	got := map[string]rp.FEntry{}
	for _, e := range l.Entries {
		n := string(e.Name)
		if _, dup := got[n]; dup {
			return fmt.Sprintf("duplicate entry %q", n)
		}
		got[n] = e
	}
	want := 0
	for _, s := range src {
		want++
		e, ok := got[prefix+s.Path]
		if !ok {
			return fmt.Sprintf("entry %q missing from the decoded list (have %d entries)", prefix+s.Path, len(got))
		}
		if e.Mode&rp.SIFMT != modeBits(s)&rp.SIFMT {
			return fmt.Sprintf("%q: type bits %o, want %o", s.Path, e.Mode&rp.SIFMT, modeBits(s)&rp.SIFMT)
		}
		if s.Type != tm.Link && e.Mode&0o777 != int32(s.Mode&0o777) {
			return fmt.Sprintf("%q: permission bits %o, want %o", s.Path, e.Mode&0o777, s.Mode&0o777)
		}
		if s.Type == tm.Reg && e.Len != int64(len(s.Data)) {
			return fmt.Sprintf("%q: length %d, want %d", s.Path, e.Len, len(s.Data))
		}
		if s.Type != tm.Link && int64(e.Mtime) != s.Mtime {
			return fmt.Sprintf("%q: mtime %d, want %d", s.Path, e.Mtime, s.Mtime)
		}
		if o.o && int(e.UID) != s.Uid {
			return fmt.Sprintf("%q: uid %d, want %d", s.Path, e.UID, s.Uid)
		}
		if o.g && int(e.GID) != s.Gid {
			return fmt.Sprintf("%q: gid %d, want %d", s.Path, e.GID, s.Gid)
		}
		if o.D && (s.Type == tm.Chr || s.Type == tm.Blk) && uint64(uint32(e.Rdev)) != s.Rdev {
			return fmt.Sprintf("%q: rdev %#x, want %#x", s.Path, e.Rdev, s.Rdev)
		}
		if o.l && s.Type == tm.Link && string(e.Link) != s.Target {
			return fmt.Sprintf("%q: link target %q, want %q", s.Path, e.Link, s.Target)
		}
		if o.c && s.Type == tm.Reg && e.Sum != rp.ListSum(s.Data) {
			return fmt.Sprintf("%q: list checksum %x, want %x", s.Path, e.Sum, rp.ListSum(s.Data))
		}
	}
	// the top directory itself may be listed as "."
	extra := len(got) - want
	if _, ok := got["."]; ok {
		extra--
	}
	if prefix != "" {
		if _, ok := got[strings.TrimSuffix(prefix, "/")]; ok {
			extra--
		}
	}
	if extra != 0 {
		var names []string
		for n := range got {
			names = append(names, n)
		}
		sort.Strings(names)
		return fmt.Sprintf("%d unexpected extra entries: %q", extra, trunc(strings.Join(names, ","), 300))
	}
	if l.IOError != 0 {
		return fmt.Sprintf("io_error flag %d on a fully readable tree", l.IOError)
	}
	if o.o {
		for _, u := range l.Users {
			if u.ID == 0 || u.Name == "" {
				return fmt.Sprintf("malformed uid list entry %+v", u)
			}
		}
	}
	return ""
}

func c15BuildEncoder(tier string) core.Source {
	drive.Quiet()
	type cs struct {
		arr string
		opt c15Opt
		t   bool
	}
	var cases []cs
	for _, arr := range []string{drive.DaemonPull, drive.LibPull, drive.DaemonPush, drive.LibPush} {
		for mask := 0; mask < 32; mask++ {
			cases = append(cases, cs{arr, c15Opt{mask&1 != 0, mask&2 != 0, mask&4 != 0, mask&8 != 0, mask&16 != 0}, mask%2 == 0})
		}
	}
	src := c15Tree()
	return core.FuncSource{N: len(cases), F: func(i int) core.Result {
		c := cases[i]
		args := c.opt.String()
		if c.t {
			args += "t"
		}
		res := core.Result{Case: fmt.Sprintf("encoder: %s %s on the every-type tree", c.arr, args)}
		sc := &syncCase{Arr: c.arr, Args: []string{args}, Src: src, Form: "contents", Rec: true}
		sr, err := sc.run(false)
		defer cleanup(sr.Dir)
		if err != nil {
			res.Inconcl = err.Error()
			return res
		}
		cnt(&res, "transitions", 1)
		cnt(&res, "states", 1)
		cnt(&res, "traces_validated_against_impl", 1)
		ff := []string{"arr", c.arr, "opts", c.opt.String()}
		srcSnap, _ := tm.Snapshot(filepath.Join(sr.Dir, "src"), true)
		var list *rp.FList
		daemon := c.arr == drive.DaemonPull || c.arr == drive.DaemonPush
		switch c.arr {
		case drive.DaemonPull, drive.LibPull:
			tap, err := peer.ParsePull(sr.Out.S2C, c.opt.list(), daemon, false)
			if tap.List == nil || (err != nil && len(tap.List.Entries) == 0) {
				res.Fail = core.Fail("stream_undecodable", fmt.Sprintf("%v; session: %s", err, sr.Out.ErrString()), ff...)
				return res
			}
			list = tap.List
			// handshake grammar
			if daemon {
				if !bytes.HasPrefix(sr.Out.S2C, []byte("@RSYNCD: 27\n@RSYNCD: OK\n")) {
					res.Fail = core.Fail("handshake_malformed", fmt.Sprintf("%q", trunc(string(sr.Out.S2C), 60)), ff...)
					return res
				}
			} else if len(sr.Out.S2C) < 4 || sr.Out.S2C[0] != 27 || sr.Out.S2C[1] != 0 {
				res.Fail = core.Fail("handshake_malformed", fmt.Sprintf("version word % x", sr.Out.S2C[:4]), ff...)
				return res
			}
			for _, f := range tap.Frames {
				if f.Tag != rp.TagData && f.Tag != rp.TagInfo && f.Tag != rp.TagError {
					res.Fail = core.Fail("frame_malformed", fmt.Sprintf("tag %d", f.Tag), ff...)
					return res
				}
			}
			// generator's sum heads (client -> server) must follow the reference grammar
			gt, gerr := peer.ParsePullRequests(sr.Out.C2S, daemon, false)
			if gerr != nil {
				res.Fail = core.Fail("requests_undecodable", gerr.Error(), ff...)
				return res
			}
			for _, rq := range gt.Requests {
				h := rq.Sums.Head
				if h.Count != int32(len(rq.Sums.Blocks)) || h.S2Len < 0 || h.S2Len > 16 || h.Rem < 0 || (h.BLen > 0 && h.Rem >= h.BLen) {
					res.Fail = core.Fail("sum_head_malformed", fmt.Sprintf("%+v", h), ff...)
					return res
				}
			}
		default:
			tap, err := peer.ParsePush(sr.Out.C2S, c.opt.list(), daemon, false, false)
			if tap.List == nil || (err != nil && len(tap.List.Entries) == 0) {
				res.Fail = core.Fail("stream_undecodable", fmt.Sprintf("%v; session: %s", err, sr.Out.ErrString()), ff...)
				return res
			}
			list = tap.List
			if daemon && !bytes.HasPrefix(sr.Out.C2S, []byte("@RSYNCD: 27\nw\n--server\n")) {
				res.Fail = core.Fail("handshake_malformed", fmt.Sprintf("%q", trunc(string(sr.Out.C2S), 80)), ff...)
				return res
			}
		}
		if d := c15CheckList(list, srcSnap, c.opt, ""); d != "" {
			res.Fail = core.Fail("encoded_list_differs_from_source", d, ff...)
			return res
		}
		res.Nontrivial = true
		res.Outcome = "ok"
		return res
	}}
}

// ---- numbering: requests by the reference peer's numbering must hit the right file

func c15BuildNumbering(tier string) core.Source {
	drive.Quiet()
	// "." is an ordinary name in protocol 27: top-level names starting with a byte below '.' sort before it
	names := []string{"a.b", "a/b", "a-", "a/", "A", "n\x7f", "n\x80", "a b", "a\tb", "a.b.c", "a0", "Z", "_", "a/a", "a/B", "b",
		"+inbox", "-archive", "#r", " x", "!", "-", ".hidden", "..hidden", ".-", "a/-inner", "a/.x"}
	return core.FuncSource{N: 3, F: func(i int) core.Result {
		res := core.Result{}
		dir := workDir()
		defer cleanup(dir)
		if i == 2 {
			res.Case = "encoder: 64-bit length encoding — the real sender lists sparse files of 2^31-1, 2^31, 2^32+5 and 2^40 bytes"
			sizes := map[string]int64{"s31m1": 1<<31 - 1, "s31": 1 << 31, "s32p5": 1<<32 + 5, "s40": 1 << 40, "s0": 0}
			os.MkdirAll(filepath.Join(dir, "src"), 0o755)
			for n, sz := range sizes {
				p := filepath.Join(dir, "src", n)
				if err := os.WriteFile(p, nil, 0o644); err != nil {
					res.Inconcl = err.Error()
					return res
				}
				if err := os.Truncate(p, sz); err != nil {
					res.Inconcl = "sparse files unsupported here: " + err.Error()
					return res
				}
			}
			rs, err := peer.StartSender(nil, filepath.Join(dir, "src"), []string{"/"}, []string{"--server", "--sender", "-r"}, 77)
			if err != nil {
				res.Inconcl = err.Error()
				return res
			}
			defer rs.Close()
			fl, err := rp.DecodeList(rs.Gen.R, rp.ListOpts{})
			cnt(&res, "transitions", 1)
			cnt(&res, "states", 1)
			cnt(&res, "traces_validated_against_impl", 1)
			if err != nil {
				res.Fail = core.Fail("stream_undecodable", err.Error())
				return res
			}
			seen := 0
			for _, e := range fl.Entries {
				if want, ok := sizes[string(e.Name)]; ok {
					seen++
					if e.Len != want {
						res.Fail = core.Fail("encoded_list_differs_from_source", fmt.Sprintf("%s: length %d on the wire, file has %d", e.Name, e.Len, want))
						return res
					}
				}
			}
			if seen != len(sizes) {
				res.Fail = core.Fail("encoded_list_differs_from_source", fmt.Sprintf("only %d of %d big files listed", seen, len(sizes)))
				return res
			}
			rs.Gen.Finish(true)
			res.Nontrivial = true
			res.Outcome = "ok"
			return res
		}
		var files []string
		for _, n := range names {
			if !strings.HasSuffix(n, "/") {
				files = append(files, n)
			}
		}
		if i == 0 {
			res.Case = "numbering: reference generator requests every index (own numbering) from the real sender; data must belong to that name"
			var t tm.Tree
			t = append(t, tm.D("a", 0o755, tm.Past))
			for _, n := range files {
				t = append(t, tm.File(n, []byte("content-of:"+n), 0o644, tm.Past))
			}
			if err := t.Materialise(filepath.Join(dir, "src")); err != nil {
				res.Inconcl = err.Error()
				return res
			}
			// the directory is named twice, so every name occurs twice in the list
			rs, err := peer.StartSender(nil, filepath.Join(dir, "src"), []string{"/", "/"}, []string{"--server", "--sender", "-r"}, 77)
			if err != nil {
				res.Inconcl = err.Error()
				return res
			}
			defer rs.Close()
			fl, err := rp.DecodeList(rs.Gen.R, rp.ListOpts{})
			if err != nil {
				res.Fail = core.Fail("stream_undecodable", err.Error())
				return res
			}
			if len(fl.Entries) != 2*(len(files)+2) {
				res.Fail = core.Fail("encoded_list_differs_from_source", fmt.Sprintf("the source directory named twice: %d entries listed, want %d", len(fl.Entries), 2*(len(files)+2)))
				return res
			}
			sorted := rp.SortedIndex(fl.Entries)
			for k, e := range sorted {
				if e.Mode&rp.SIFMT != rp.SIFREG {
					continue
				}
				resp, err := rs.Gen.Request(int32(k), rp.Sums{Head: rp.SumHead{Count: 0, BLen: 700, S2Len: 16}})
				cnt(&res, "transitions", 1)
				if err != nil {
					res.Fail = core.Fail("sender_stopped", err.Error())
					return res
				}
				den, _ := rp.Denote(resp.Toks, nil, resp.Head)
				if string(den) != "content-of:"+string(e.Name) {
					res.Fail = core.Fail("index_refers_to_other_file", fmt.Sprintf("index %d is %q in protocol order but the sender served %q", k, e.Name, den))
					return res
				}
			}
			rs.Gen.Finish(true)
		} else {
			res.Case = "numbering: real receiver requests from the reference sender (own numbering); every name must get its own bytes"
			dest := filepath.Join(dir, "dst")
			os.MkdirAll(dest, 0o755)
			list := &rp.FList{}
			list.Entries = append(list.Entries, rp.FEntry{Name: []byte("a"), Len: 0, Mtime: tm.Past, Mode: rp.SIFDIR | 0o755})
			list.Entries = append(list.Entries, rp.FEntry{Name: []byte("."), Len: 4096, Mtime: tm.Past, Mode: rp.SIFDIR | 0o755, TopDir: true})
			// the same names sent twice (two source arguments naming the same entries): a duplicate keeps its slot
			// in the numbering of protocol 27 (the list is sorted, never compacted)
			for _, n := range []string{"A", "a-", "b"} {
				list.Entries = append(list.Entries, rp.FEntry{Name: []byte(n), Len: int64(len("content-of:" + n)), Mtime: tm.Past, Mode: rp.SIFREG | 0o644})
			}
			list.Entries = append(list.Entries, rp.FEntry{Name: []byte("."), Len: 4096, Mtime: tm.Past, Mode: rp.SIFDIR | 0o755, TopDir: true})
			// send in a scrambled order; both sides sort
			for k := len(files) - 1; k >= 0; k-- {
				n := files[k]
				list.Entries = append(list.Entries, rp.FEntry{Name: []byte(n), Len: int64(len("content-of:" + n)), Mtime: tm.Past, Mode: rp.SIFREG | 0o644})
			}
			sorted := rp.SortedIndex(list.Entries)
			data := map[int32][]byte{}
			for k, e := range sorted {
				data[int32(k)] = []byte("content-of:" + string(e.Name))
			}
			rerr, slog, serr, _ := peer.RunReceiver(dest, peer.RecvOpts{Times: true}, 77, &peer.SenderScript{List: list, Seed: 77, Data: data})
			cnt(&res, "transitions", int64(len(slog.Requests)))
			if rerr != nil || serr != nil {
				res.Fail = core.Fail("session_failed", fmt.Sprintf("%v / %v", rerr, serr))
				return res
			}
			for _, n := range files {
				b, err := os.ReadFile(filepath.Join(dest, n))
				if err != nil || string(b) != "content-of:"+n {
					res.Fail = core.Fail("index_refers_to_other_file", fmt.Sprintf("%q holds %q (err %v)", n, b, err))
					return res
				}
			}
		}
		cnt(&res, "states", res.Counters["transitions"])
		cnt(&res, "traces_validated_against_impl", res.Counters["transitions"])
		res.Nontrivial = true
		res.Outcome = "ok"
		return res
	}}
}

func init() {
	core.Register(&core.Prop{
		ID:    "C15",
		Level: "model_checking",
		Rule: "decoder: the real ReceiveFileList is fed refproto encodings of every list of <=2 entries from a 10-entry pool (every type, shared prefixes, 300-byte name, bytes >= 0x80, lengths 0/2^31-1/2^31/2^40, equal mode/time/uid/gid/rdev to the predecessor) under every subset of the compression flags a conforming sender may use for that entry, for all 32 option sets adding optional fields, followed by trailing garbage that must not be consumed; encoder: the real sender's stream on an every-type tree for all 32 option sets in daemon and command handshakes and both directions is decoded by refproto and compared with the source tree, plus handshake/sum-head grammar; numbering: requests by reference numbering hit the right file in both directions on names where plausible wrong orders differ. " +
			"states/transitions = lists decoded / sessions decoded; non-trivial = case exercising at least one compression flag",
		Assum: []string{"refproto transcribes rsync 2.6.x flist.c for protocol 27 (validated against the real sender by the encoder part and, when available, against tridge rsync)"},
		Parts: func(tier string) []core.Part {
			return []core.Part{
				{Name: "decoder", Build: c15BuildDecoder},
				{Name: "encoder", Build: c15BuildEncoder},
				{Name: "numbering", Build: c15BuildNumbering},
			}
		},
	})
}
