package props

import (
	"bytes"
	"fmt"
	"path/filepath"
	"testing/fstest"
	"time"

	"github.com/gokrazy/rsync/internal/sender"
	"github.com/gokrazy/rsync/verifharness/core"
	"github.com/gokrazy/rsync/verifharness/drive"
	"github.com/gokrazy/rsync/verifharness/peer"
	rp "github.com/gokrazy/rsync/verifharness/refproto"
	tm "github.com/gokrazy/rsync/verifharness/treemodel"
)

// C16 — unchanged data is not re-sent: matches are found at every byte offset.

type c16Edit struct {
	kind byte // 'i' insert, 'd' delete, 'r' replace
	off  int  // symbolic offset index
	ln   int  // symbolic length index
}

func c16Lengths(B int) []int { return []int{1, B / 2, B, B + 1, 3 * B} }
func c16Offsets(B, n int) []int {
	return []int{0, 1, B - 1, B, B + 1, n / 2, n - B, n - 1, n}
}

// apply performs the edit on data; returns new data and number of inserted bytes.
func (e c16Edit) apply(data []byte, B int, salt uint32) ([]byte, int) {
	n := len(data)
	off := c16Offsets(B, n)[e.off]
	if off < 0 {
		off = 0
	}
	if off > n {
		off = n
	}
	ln := c16Lengths(B)[e.ln]
	switch e.kind {
	case 'i':
		ins := genData(famHash, ln, salt)
		out := append(append(append([]byte{}, data[:off]...), ins...), data[off:]...)
		return out, ln
	case 'd':
		end := min(off+ln, n)
		return append(append([]byte{}, data[:off]...), data[end:]...), 0
	default:
		end := min(off+ln, n)
		ins := genData(famHash, end-off, salt)
		out := append(append(append([]byte{}, data[:off]...), ins...), data[end:]...)
		return out, end - off
	}
}

func (e c16Edit) String(B, n int) string {
	return fmt.Sprintf("%c@%d+%d", e.kind, c16Offsets(B, n)[e.off], c16Lengths(B)[e.ln])
}

func c16AllEdits() []c16Edit {
	var out []c16Edit
	for _, k := range []byte{'i', 'd', 'r'} {
		for o := 0; o < 9; o++ {
			for l := 0; l < 5; l++ {
				out = append(out, c16Edit{k, o, l})
			}
		}
	}
	return out
}

// c16Ask serves target from the real sender and requests it against sums of basis with block length B.
func c16Ask(target, basis []byte, B int32) (*peer.Response, rp.Sums, error) {
	mfs := fstest.MapFS{"t": &fstest.MapFile{Data: target, Mode: 0o644, ModTime: time.Unix(tm.Past, 0)}}
	rs, err := peer.StartSender(sender.NewFSSource(mfs), "mod", []string{"/"}, []string{"--server", "--sender", "-r"}, c02Seed)
	if err != nil {
		return nil, rp.Sums{}, err
	}
	defer rs.Close()
	fl, err := rp.DecodeList(rs.Gen.R, rp.ListOpts{})
	if err != nil {
		return nil, rp.Sums{}, err
	}
	idx := int32(-1)
	for k, e := range rp.SortedIndex(fl.Entries) {
		if string(e.Name) == "t" {
			idx = int32(k)
		}
	}
	head := rp.LegalHead(len(basis), B, 16)
	sums := rp.MakeSums(basis, head, c02Seed)
	resp, err := rs.Gen.Request(idx, sums)
	if err != nil {
		return nil, sums, fmt.Errorf("%v (sender: %v)", err, rs.Close())
	}
	rs.Gen.Finish(true)
	return resp, sums, nil
}

// c16Judge checks reconstruction and the literal-byte bound.
func c16Judge(resp *peer.Response, sums rp.Sums, basis, target []byte, inserted, edits int, what string) *core.Failure {
	B := int(sums.Head.BLen)
	den, err := rp.Denote(resp.Toks, basis, resp.Head)
	if err != nil || !bytes.Equal(den, target) || resp.Trailer != rp.FileSum(c02Seed, target) {
		return core.Fail("wrong_reconstruction", fmt.Sprintf("%s: stream does not denote the target (err=%v)", what, err))
	}
	lit := int(resp.LiteralBytes())
	bound := inserted + 3*B*edits + B
	if edits == 0 && inserted == 0 {
		bound = 0
	}
	if ex := lit - inserted; ex > c16MaxExcess {
		c16MaxExcess = ex
	}
	if lit > bound {
		return core.Fail("too_much_literal_data", fmt.Sprintf("%s: %d literal bytes for a %d-byte target, bound %d (inserted=%d, edits=%d, B=%d); tokens=%s", what, lit, len(target), bound, inserted, edits, B, tokStr(resp.Toks)), "edits", fmt.Sprint(edits))
	}
	return nil
}

// c16MaxExcess: largest (literal - inserted) seen in the current case (worker-local).
var c16MaxExcess int

func c16Bucket(B int) string {
	ex := c16MaxExcess
	c16MaxExcess = -1 << 30
	switch {
	case ex <= 0:
		return "ok/excess<=0"
	case ex < B:
		return "ok/excess<B"
	case ex < 2*B:
		return "ok/excess<2B"
	default:
		return "ok/excess>=2B"
	}
}

func c16RealBlockLen(n int) int32 {
	// the generator's choice: max(700, floor(sqrt(n)))
	b := int32(700)
	for r := int32(700); int64(r)*int64(r) <= int64(n); r++ {
		b = r
	}
	return b
}

func c16BuildShifts(tier string) core.Source {
	type cs struct {
		B      int
		blocks int
	}
	cases := []cs{{8, 40}, {32, 40}, {700, 40}}
	if tier == "thorough" {
		cases = append(cases, cs{1024, 300}, cs{2048, 140})
	}
	var flat []struct {
		cs
		lo, hi int
	}
	for _, c := range cases {
		step := 64
		for lo := 0; lo <= c.B; lo += step {
			flat = append(flat, struct {
				cs
				lo, hi int
			}{c, lo, min(lo+step-1, c.B)})
		}
	}
	return core.FuncSource{N: len(flat), F: func(i int) core.Result {
		c := flat[i]
		basis := genData(famHash, c.B*c.blocks+c.B/3, uint32(c.B))
		res := core.Result{Case: fmt.Sprintf("shift s=%d..%d bytes prepended to a basis of %d blocks of B=%d (+remainder)", c.lo, c.hi, c.blocks, c.B)}
		for s := c.lo; s <= c.hi; s++ {
			target := append(genData(famHash, s, 991), basis...)
			resp, sums, err := c16Ask(target, basis, int32(c.B))
			cnt(&res, "transitions", 1)
			if err != nil {
				res.Fail = core.Fail("sender_stopped", err.Error())
				return res
			}
			edits := 1
			if s == 0 {
				edits = 0
			}
			if f := c16Judge(resp, sums, basis, target, s, edits, fmt.Sprintf("shift %d B=%d", s, c.B)); f != nil {
				res.Fail = f
				return res
			}
		}
		cnt(&res, "states", res.Counters["transitions"])
		cnt(&res, "traces_validated_against_impl", res.Counters["transitions"])
		res.Nontrivial = c.hi > 0
		res.Outcome = c16Bucket(c.B)
		return res
	}}
}

func c16BuildEdits(tier string) core.Source {
	depth := 2
	Bs := []int{32, 700}
	blocks := 40
	if tier == "thorough" {
		Bs = []int{32, 700, 1024}
	}
	edits := c16AllEdits()
	type cs struct {
		B     int
		first int // index of first edit, -1: identity/prepend/append/permutations
	}
	var cases []cs
	for _, B := range Bs {
		cases = append(cases, cs{B, -1})
		for e := range edits {
			cases = append(cases, cs{B, e})
		}
	}
	return core.FuncSource{N: len(cases), F: func(i int) core.Result {
		c := cases[i]
		n := c.B*blocks + c.B/3
		basis := genData(famHash, n, uint32(c.B)+17)
		res := core.Result{}
		if c.first < 0 {
			res.Case = fmt.Sprintf("B=%d: identical file, prepend, append, all permutations of 4 blocks", c.B)
			// identical
			type tc struct {
				name     string
				target   []byte
				ins, eds int
				basis    []byte
			}
			var tcs []tc
			tcs = append(tcs, tc{"identical", basis, 0, 0, basis})
			tcs = append(tcs, tc{"prepend", append(genData(famHash, 1000, 3), basis...), 1000, 1, basis})
			tcs = append(tcs, tc{"append", append(append([]byte{}, basis...), genData(famHash, 1000, 4)...), 1000, 1, basis})
			b4 := basis[:4*c.B]
			perm := []int{0, 1, 2, 3}
			var permute func(k int)
			permute = func(k int) {
				if k == 4 {
					var t []byte
					for _, p := range perm {
						t = append(t, b4[p*c.B:(p+1)*c.B]...)
					}
					// a permutation of whole blocks needs no literal data at all
					tcs = append(tcs, tc{fmt.Sprintf("perm%v", perm), t, 0, 0, b4})
					return
				}
				for j := k; j < 4; j++ {
					perm[k], perm[j] = perm[j], perm[k]
					permute(k + 1)
					perm[k], perm[j] = perm[j], perm[k]
				}
			}
			permute(0)
			for _, t := range tcs {
				resp, sums, err := c16Ask(t.target, t.basis, int32(c.B))
				cnt(&res, "transitions", 1)
				if err != nil {
					res.Fail = core.Fail("sender_stopped", err.Error())
					return res
				}
				if f := c16Judge(resp, sums, t.basis, t.target, t.ins, t.eds, fmt.Sprintf("%s B=%d", t.name, c.B)); f != nil {
					res.Fail = f
					return res
				}
			}
		} else {
			e1 := edits[c.first]
			res.Case = fmt.Sprintf("B=%d n=%d: edit %s alone and followed by every second edit (depth<=%d)", c.B, n, e1.String(c.B, n), depth)
			t1, ins1 := e1.apply(basis, c.B, 100)
			resp, sums, err := c16Ask(t1, basis, int32(c.B))
			cnt(&res, "transitions", 1)
			if err != nil {
				res.Fail = core.Fail("sender_stopped", err.Error())
				return res
			}
			if f := c16Judge(resp, sums, basis, t1, ins1, 1, e1.String(c.B, n)); f != nil {
				res.Fail = f
				return res
			}
			if depth >= 2 {
				for _, e2 := range edits {
					t2, ins2 := e2.apply(t1, c.B, 200)
					resp, sums, err := c16Ask(t2, basis, int32(c.B))
					cnt(&res, "transitions", 1)
					if err != nil {
						res.Fail = core.Fail("sender_stopped", err.Error())
						return res
					}
					if f := c16Judge(resp, sums, basis, t2, ins1+ins2, 2, e1.String(c.B, n)+" then "+e2.String(c.B, len(t1))); f != nil {
						res.Fail = f
						return res
					}
				}
			}
		}
		cnt(&res, "states", res.Counters["transitions"])
		cnt(&res, "traces_validated_against_impl", res.Counters["transitions"])
		res.Nontrivial = true
		res.Outcome = c16Bucket(c.B)
		return res
	}}
}

// c16BuildLongRuns: literal runs around and above the sender's mid-file flush
// threshold (block length + its 256 KiB chunk size) and around its read window,
// followed by known data: matching must resume after every such run.
func c16BuildLongRuns(tier string) core.Source {
	const chunk = 256 * 1024
	type cs struct {
		B     int
		n     int
		kind  byte // 'i' insert, 'r' replace, 'p' prepend, '2' two inserts
		ln    int
		where int // offset of the (first) edit
	}
	var cases []cs
	Bs := []int{700, 1024}
	if tier == "thorough" {
		Bs = append(Bs, 2048, 8192)
	}
	for _, B := range Bs {
		n := 3*chunk + 12345
		for _, ln := range []int{chunk - 1, chunk, chunk + B - 1, chunk + B, chunk + B + 1, chunk + 3*B + 17, 2*chunk + B + 5, 3*chunk + 2*B + 1} {
			for _, where := range []int{0, 1001, chunk - 7, n / 2} {
				kinds := []byte{'i', 'r'}
				if where == 0 {
					kinds = []byte{'p'}
				}
				for _, k := range kinds {
					if tier != "thorough" && k == 'r' && where != 1001 {
						continue
					}
					cases = append(cases, cs{B, n, k, ln, where})
				}
			}
		}
		cases = append(cases, cs{B, n, '2', chunk + B + 1, 1001}, cs{B, n, '2', chunk + 3*B, chunk - 7})
	}
	return core.FuncSource{N: len(cases), F: func(i int) core.Result {
		c := cases[i]
		basis := genData(famHash, c.n, uint32(7000+c.B))
		res := core.Result{Case: fmt.Sprintf("long literal run: B=%d basis=%d bytes, %c of %d bytes at offset %d", c.B, c.n, c.kind, c.ln, c.where)}
		ins := genData(famHash, c.ln, 4711)
		var target []byte
		inserted, edits := c.ln, 1
		switch c.kind {
		case 'i', 'p':
			target = append(append(append([]byte{}, basis[:c.where]...), ins...), basis[c.where:]...)
		case 'r':
			end := min(c.where+c.ln, c.n-chunk-2*c.B) // keep more than one chunk of known data after the run
			ins = ins[:end-c.where]
			inserted = len(ins)
			target = append(append(append([]byte{}, basis[:c.where]...), ins...), basis[end:]...)
		case '2':
			second := genData(famHash, c.ln, 4712)
			at2 := c.where + chunk + 5*c.B + 3
			target = append(append(append(append(append([]byte{}, basis[:c.where]...), ins...), basis[c.where:at2]...), second...), basis[at2:]...)
			inserted, edits = 2*c.ln, 2
		}
		resp, sums, err := c16Ask(target, basis, int32(c.B))
		cnt(&res, "transitions", 1)
		cnt(&res, "states", 1)
		cnt(&res, "traces_validated_against_impl", 1)
		if err != nil {
			res.Fail = core.Fail("sender_stopped", err.Error())
			return res
		}
		if f := c16Judge(resp, sums, basis, target, inserted, edits, res.Case); f != nil {
			res.Fail = f
			return res
		}
		res.Nontrivial = true
		res.Outcome = c16Bucket(c.B)
		return res
	}}
}

// c16BuildMulti: several files go through the delta path in ONE run (the
// sender's per-file search state must not carry over from one file to the
// next): identical-but-touched files cost nothing, edited ones stay within
// the bound, whatever came before them in the same session.
func c16BuildMulti(tier string) core.Source {
	drive.Quiet()
	type cs struct {
		arr   string
		sizes []int
	}
	var cases []cs
	for _, arr := range []string{drive.LibPull, drive.LibPush} {
		cases = append(cases, cs{arr, []int{1500000, 1500001, 900000, 28000, 1200000}})
		if tier == "thorough" {
			cases = append(cases, cs{arr, []int{6 << 20, 5<<20 + 3, 4 << 20, 7<<20 + 1}})
		}
	}
	return core.FuncSource{N: len(cases), F: func(i int) core.Result {
		c := cases[i]
		res := core.Result{Case: fmt.Sprintf("real generator, one %s session with %d files of %v bytes: identical-but-touched and edited files alternate", c.arr, len(c.sizes), c.sizes)}
		var src, dst tm.Tree
		type want struct {
			name     string
			inserted int
			edits    int
			B        int
		}
		var wants []want
		for k, n := range c.sizes {
			basis := genData(famHash, n, uint32(600+k))
			target, ins, eds := basis, 0, 0
			if k%2 == 1 {
				// an unaligned insertion in the middle
				add := genData(famHash, 333, uint32(700+k))
				target = append(append(append([]byte{}, basis[:n/2+7]...), add...), basis[n/2+7:]...)
				ins, eds = len(add), 1
			}
			name := fmt.Sprintf("f%d", k)
			src = append(src, tm.File(name, target, 0o644, tm.Past))
			dst = append(dst, tm.File(name, basis, 0o644, tm.Past-99))
			wants = append(wants, want{name, ins, eds, int(c16RealBlockLen(n))})
		}
		sc := &syncCase{Arr: c.arr, Args: []string{"-rt"}, Form: "contents", Rec: true, Src: src, Dst: dst}
		sr, err := sc.run(false)
		defer cleanup(sr.Dir)
		if err != nil {
			res.Inconcl = err.Error()
			return res
		}
		cnt(&res, "transitions", 1)
		cnt(&res, "traces_validated_against_impl", 1)
		if !sr.Out.OK() {
			res.Fail = core.Fail("session_failed", sr.Out.ErrString())
			return res
		}
		var responses []peer.Response
		if c.arr == drive.LibPull {
			tap, err := peer.ParsePull(sr.Out.S2C, rp.ListOpts{}, false, false)
			if err != nil {
				res.Inconcl = "tap: " + err.Error()
				return res
			}
			responses = tap.Responses
		} else {
			tap, err := peer.ParsePush(sr.Out.C2S, rp.ListOpts{}, false, false, false)
			if err != nil {
				res.Inconcl = "tap: " + err.Error()
				return res
			}
			responses = tap.Responses
		}
		if len(responses) != len(wants) {
			res.Fail = core.Fail("not_requested", fmt.Sprintf("%d responses for %d files", len(responses), len(wants)))
			return res
		}
		srcSnap, _ := tm.Snapshot(filepath.Join(sr.Dir, "src"), false)
		for k, w := range wants {
			cnt(&res, "states", 1)
			if a, b := sr.After.Find(w.name), srcSnap.Find(w.name); a == nil || b == nil || a.Sum != b.Sum {
				res.Fail = core.Fail("wrong_reconstruction", w.name)
				return res
			}
			lit := int(responses[k].LiteralBytes())
			bound := w.inserted + 3*w.B*w.edits + w.B
			if w.edits == 0 {
				bound = 0
			}
			if lit > bound {
				res.Fail = core.Fail("too_much_literal_data", fmt.Sprintf("file %d of the session (%s, %d bytes): %d literal bytes, bound %d (inserted %d, B=%d)", k, w.name, c.sizes[k], lit, bound, w.inserted, w.B), "edits", fmt.Sprint(w.edits), "part", "multi")
				return res
			}
		}
		res.Nontrivial = true
		res.Outcome = "ok/multi"
		return res
	}}
}

// c16BuildReal: whole sessions with the real generator; literal bytes are
// counted by the wire tap.
func c16BuildReal(tier string) core.Source {
	drive.Quiet()
	sizes := []int{28000, 600000}
	if tier == "thorough" {
		sizes = append(sizes, 1<<20+5, 4<<20+11, 20<<20+3)
	}
	edits := c16AllEdits()
	type cs struct {
		n    int
		edit int // -1 identical; >=0 edit index; <= -10: long deletion number -10-k
	}
	// long deletions: the new file is much shorter than the receiver's copy (its end then consists of the basis' tail)
	longDel := []struct{ offNum, offDen, lenNum, lenDen int }{{0, 1, 1, 2}, {1, 3, 1, 3}, {1, 7, 3, 5}, {0, 1, 9, 10}}
	var cases []cs
	for _, n := range sizes {
		cases = append(cases, cs{n, -1})
		for k := range longDel {
			cases = append(cases, cs{n, -10 - k})
		}
		for e := range edits {
			if n > 1<<20 && e%7 != 0 {
				continue
			}
			cases = append(cases, cs{n, e})
		}
	}
	return core.FuncSource{N: len(cases), F: func(i int) core.Result {
		c := cases[i]
		B := int(c16RealBlockLen(c.n))
		basis := genData(famHash, c.n, 4242)
		target, ins, eds, name := basis, 0, 0, "identical (other mtime)"
		if c.edit >= 0 {
			e := edits[c.edit]
			target, ins = e.apply(basis, B, 77)
			eds = 1
			name = e.String(B, c.n)
		}
		if c.edit <= -10 {
			d := longDel[-10-c.edit]
			off, ln := c.n*d.offNum/d.offDen, c.n*d.lenNum/d.lenDen
			target = append(append([]byte{}, basis[:off]...), basis[off+ln:]...)
			eds = 1
			name = fmt.Sprintf("d@%d+%d (long deletion)", off, ln)
		}
		res := core.Result{Case: fmt.Sprintf("real generator: n=%d B=%d edit=%s via lib-pull", c.n, B, name)}
		sc := &syncCase{Arr: drive.LibPull, Args: []string{"-rt"}, Form: "contents", Rec: true,
			Src: tm.Tree{tm.File("f", target, 0o644, tm.Past)},
			Dst: tm.Tree{tm.File("f", basis, 0o644, tm.Past-99)}}
		sr, err := sc.run(false)
		defer cleanup(sr.Dir)
		if err != nil {
			res.Inconcl = err.Error()
			return res
		}
		cnt(&res, "transitions", 1)
		cnt(&res, "states", 1)
		cnt(&res, "traces_validated_against_impl", 1)
		if !sr.Out.OK() {
			res.Fail = core.Fail("session_failed", sr.Out.ErrString())
			return res
		}
		tap, err := peer.ParsePull(sr.Out.S2C, rp.ListOpts{}, false, false)
		if err != nil {
			res.Inconcl = "tap: " + err.Error()
			return res
		}
		if len(tap.Responses) != 1 {
			res.Fail = core.Fail("not_requested", fmt.Sprintf("%d responses", len(tap.Responses)))
			return res
		}
		got := sr.After.Find("f")
		want, _ := tm.Snapshot(filepath.Join(sr.Dir, "src"), false)
		if got == nil || want.Find("f") == nil || got.Sum != want.Find("f").Sum {
			res.Fail = core.Fail("wrong_reconstruction", "destination differs from source")
			return res
		}
		if int(tap.Responses[0].Head.BLen) != B {
			res.Inconcl = fmt.Sprintf("generator used block length %d, model says %d", tap.Responses[0].Head.BLen, B)
			return res
		}
		lit := int(tap.LiteralBytes())
		bound := ins + 3*B*eds + B
		if eds == 0 {
			bound = 0
		}
		if lit > bound {
			res.Fail = core.Fail("too_much_literal_data", fmt.Sprintf("%d literal bytes, bound %d (inserted %d, B=%d)", lit, bound, ins, B), "edits", fmt.Sprint(eds))
			return res
		}
		res.Nontrivial = eds > 0
		c16MaxExcess = lit - ins
		res.Outcome = c16Bucket(B)
		return res
	}}
}

func init() {
	core.Register(&core.Prop{
		ID:    "C16",
		Level: "model_checking",
		Rule: "shifts: target = s fresh bytes + basis for every s in 0..B (B in {8,32,700}, basis 40 blocks + remainder) served by the real sender against reference-computed sums; edits: every edit script of depth <=2 over {insert,delete,replace} x 5 lengths x 9 offsets, plus identical file, prepend, append and all 24 permutations of 4 blocks; long-runs: one or two inserted / replaced / prepended runs of 8 lengths around the sender's flush threshold and read window (256 KiB-1 .. 3*256 KiB+2B+1) at 4 positions of a 780 KiB basis, each followed by more than one chunk of known data; real: whole lib-pull sessions with the real generator's block size (all single edits plus deletions of 1/2, 1/3, 3/5 and 9/10 of the file) and the literal bytes counted by a wire tap; multi: five (thorough also four larger) files, alternately identical-but-touched and edited, through the delta path of ONE pull / push session, each judged by the same bound. " +
			"oracle: stream denotes the target and literal bytes <= inserted + 3B per edit + B (0 for identical files and block permutations). states/transitions = requests judged; non-trivial = case with at least one edit",
		Assum: []string{"counter-hash content has no accidental repeated blocks", "bound slack 3B per edit (an edit spoils at most the two partial blocks around it) + B for the remainder block"},
		Parts: func(tier string) []core.Part {
			return []core.Part{
				{Name: "shifts", Build: c16BuildShifts},
				{Name: "edits", Build: c16BuildEdits},
				{Name: "long-runs", Build: c16BuildLongRuns},
				{Name: "real", Build: c16BuildReal},
				{Name: "multi", Build: c16BuildMulti},
			}
		},
	})
}
