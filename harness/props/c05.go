package props

import (
	"bytes"
	"fmt"
	"os"
	"path/filepath"
	"strings"

	"github.com/gokrazy/rsync/rsyncd"
	"github.com/gokrazy/rsync/verifharness/core"
	"github.com/gokrazy/rsync/verifharness/drive"
	"github.com/gokrazy/rsync/verifharness/peer"
	rp "github.com/gokrazy/rsync/verifharness/refproto"
	tm "github.com/gokrazy/rsync/verifharness/treemodel"
)

// C05 — a receiver never touches anything outside its destination directory.

var c05Secret = genData(famHash, 1500, 0x5ec)

func c05Canary() tm.Tree {
	return tm.Tree{
		tm.File("x", []byte("parent-level file that must survive"), 0o640, tm.Past),
		tm.D("canary", 0o750, tm.Past),
		tm.File("canary/secret", c05Secret, 0o600, tm.Past),
		tm.File("canary/x", []byte("canary x"), 0o644, tm.Past),
		tm.D("canary/dir", 0o700, tm.Past),
		tm.File("canary/dir/x", []byte("deep canary"), 0o644, tm.Past),
		tm.L("canary/link", "secret"),
	}
}

type c05Vector struct {
	name  string
	pre   tm.Tree                   // entries pre-placed in the destination
	names func(abs string) [][]byte // names of the list entries leading to (and including) the hostile entry; last one is the hostile entry
	setup int                       // number of leading set-up entries (symlinks) in names
}

func c05Vectors() []c05Vector {
	one := func(n string) func(string) [][]byte { return func(string) [][]byte { return [][]byte{[]byte(n)} } }
	return []c05Vector{
		{name: "dotdot", names: one("../x")},
		{name: "dotdot-nested", names: one("a/../../x")},
		{name: "dotdot-deep", names: one("sub/../../canary/x")},
		{name: "absolute", names: func(abs string) [][]byte { return [][]byte{[]byte(abs + "/canary/x")} }},
		{name: "preexisting-dir-symlink", pre: tm.Tree{tm.L("out", "../canary")}, names: one("out/x")},
		{name: "preexisting-dir-symlink-newname", pre: tm.Tree{tm.L("out", "../canary")}, names: one("out/created")},
		{name: "preexisting-file-symlink", pre: tm.Tree{tm.L("f", "../canary/secret")}, names: one("f")},
		{name: "preexisting-abs-symlink", pre: nil, names: one("absout/x")}, // pre filled in at run time (absolute target)
		{name: "symlink-in-same-list", names: func(string) [][]byte { return [][]byte{[]byte("s"), []byte("s/x")} }, setup: 1},
		{name: "parent-itself", names: one("..")},
		{name: "dotdot-dir-entry", names: one("../canary/dir")},
		// the hostile entry lies several levels below the escaping component and its parents are
		// not listed: whatever creates the implied parent directories must be confined too
		{name: "dotdot-implied-parents", names: one("../canary/newa/newb")},
		{name: "dotdot-implied-new-top", names: one("../newtop/a/b")},
		{name: "dotdot-nested-implied-parents", names: one("sub/../../newtop2/a/b")},
		{name: "absolute-implied-parents", names: func(abs string) [][]byte { return [][]byte{[]byte(abs + "/canary/newa/newb")} }},
		{name: "preexisting-dir-symlink-implied-parents", pre: tm.Tree{tm.L("out", "../canary")}, names: one("out/newa/newb")},
		{name: "preexisting-dir-symlink-deep-existing", pre: tm.Tree{tm.L("out", "../canary")}, names: one("out/dir/x")},
		{name: "symlink-in-same-list-implied-parents", names: func(string) [][]byte { return [][]byte{[]byte("s"), []byte("s/newa/newb")} }, setup: 1},
		{name: "symlink-in-same-list-deep-existing", names: func(string) [][]byte { return [][]byte{[]byte("s"), []byte("s/dir/x")} }, setup: 1},
		// names that only become dangerous after some normalisation step: a NUL byte after a symlink's name
		// (cut at the NUL, "out/" is a trailing-slash name that the kernel resolves through the link), "/." and "//" tails
		{name: "preexisting-dir-symlink-nul", pre: tm.Tree{tm.L("out", "../canary")}, names: one("out/\x00")},
		{name: "preexisting-dir-symlink-nul-tail", pre: tm.Tree{tm.L("out", "../canary")}, names: one("out/\x00tail")},
		{name: "preexisting-dir-symlink-nul-deeper", pre: tm.Tree{tm.L("out", "../canary")}, names: one("out/dir/\x00")},
		{name: "preexisting-dir-symlink-dot", pre: tm.Tree{tm.L("out", "../canary")}, names: one("out/.")},
		{name: "preexisting-dir-symlink-slashes", pre: tm.Tree{tm.L("out", "../canary")}, names: one("out//")},
		{name: "symlink-in-same-list-nul", names: func(string) [][]byte { return [][]byte{[]byte("s"), []byte("s/\x00")} }, setup: 1},
		{name: "nul-first", names: one("\x00/../canary/x")},
	}
}

var c05Types = []byte{tm.Reg, tm.Dir, tm.Link, tm.Fifo, tm.Sock, tm.Chr, tm.Blk}

type c05Case struct {
	vec, typ  int
	role      int // 0: pulling client vs hostile server; 1: writable daemon module vs hostile client
	opt       int // 0 -a, 1 -rlD, 2 -a --delete
	populated bool
	push      bool // the hostile sender pushes file data unsolicited
}

var c05Opts = [][]string{{"-a"}, {"-rlD"}, {"-a", "--delete"}}

func c05Mode(t byte) int32 {
	switch t {
	case tm.Dir:
		return rp.SIFDIR | 0o777
	case tm.Link:
		return rp.SIFLNK | 0o777
	case tm.Fifo:
		return rp.SIFIFO | 0o666
	case tm.Sock:
		return rp.SIFSOCK | 0o666
	case tm.Chr:
		return rp.SIFCHR | 0o666
	case tm.Blk:
		return rp.SIFBLK | 0o666
	}
	return rp.SIFREG | 0o666
}

func c05Run(c c05Case) core.Result {
	vecs := c05Vectors()
	v := vecs[c.vec]
	res := core.Result{Case: fmt.Sprintf("vector=%s type=%s role=%s opts=%v populated=%v", v.name, c10TypeNames[c05Types[c.typ]], []string{"client", "daemon"}[c.role], c05Opts[c.opt], c.populated)}
	dir := workDir()
	defer cleanup(dir)
	c05Canary().Materialise(dir)
	dest := filepath.Join(dir, "dst")
	pre := v.pre.Clone()
	if v.name == "preexisting-abs-symlink" {
		pre = tm.Tree{tm.L("absout", filepath.Join(dir, "canary"))}
	}
	if c.populated {
		pre = append(pre, tm.File("keep", []byte("keep"), 0o644, tm.Past), tm.D("sub", 0o755, tm.Past), tm.File("sub/inner", []byte("inner"), 0o644, tm.Past), tm.File("x", []byte("in-root x"), 0o644, tm.Past))
	}
	os.MkdirAll(dest, 0o755)
	pre.Materialise(dest)
	// relative path arithmetic that loses the root must land in the canary area, not somewhere around the harness
	os.Chdir(dest)
	defer os.Chdir(core.Scratch())
	snap := func() tm.Tree {
		t, _ := tm.Snapshot(dir, false)
		var out tm.Tree
		for _, e := range t {
			if e.Path == "dst" || strings.HasPrefix(e.Path, "dst/") {
				continue
			}
			out = append(out, e)
		}
		return out
	}
	before := snap()
	names := v.names(dir)
	list := &rp.FList{}
	list.Entries = append(list.Entries, rp.FEntry{Name: []byte("."), Len: 4096, Mtime: tm.Past + 5, Mode: rp.SIFDIR | 0o755, TopDir: true})
	for k, n := range names {
		e := rp.FEntry{Name: n, Len: 5, Mtime: tm.Past + 99, Mode: c05Mode(c05Types[c.typ]), UID: 4242, GID: 4243, Rdev: 0x0103}
		if k < v.setup {
			e.Mode, e.Link = rp.SIFLNK|0o777, []byte("../canary")
		} else if c05Types[c.typ] == tm.Link {
			e.Link = []byte("/etc/passwd")
		}
		list.Entries = append(list.Entries, e)
	}
	if c.populated {
		list.Entries = append(list.Entries, rp.FEntry{Name: []byte("keep"), Len: 5, Mtime: tm.Past + 99, Mode: rp.SIFREG | 0o600, UID: 4242, GID: 4243})
	}
	data := map[int32][]byte{}
	for k, e := range rp.SortedIndex(list.Entries) {
		if e.Mode&rp.SIFMT == rp.SIFREG {
			data[int32(k)] = []byte("PWNED")
		}
	}
	script := &peer.SenderScript{List: list, LOpts: rp.ListOpts{UID: c.opt != 1, GID: c.opt != 1, Devices: true, Specials: true, Links: true}, Seed: 5, Data: data, HalfClose: true}
	if c.push {
		for k := range data {
			script.Unsolicited = append(script.Unsolicited, k)
		}
		res.Case += " unsolicited-data"
	}
	var e1, e2 error
	var slog *peer.SenderLog
	var extra string
	if c.role == 0 {
		e1, slog, _, e2, extra = peer.ClientVsScriptedServer(c05Opts[c.opt], dest, script)
	} else {
		args := append([]string{"--server"}, serverFlagArgs(c05Opts[c.opt])...)
		args = append(args, ".", "w/")
		e1, slog, extra, e2, _ = peer.DaemonVsScriptedClient([]rsyncd.Module{{Name: "w", Path: dest, Writable: true}}, "w", args, script, c.opt == 2)
	}
	cnt(&res, "transitions", 1)
	cnt(&res, "states", int64(len(before)))
	cnt(&res, "traces_validated_against_impl", 1)
	after := snap()
	ff := []string{"vector", v.name, "type", c10TypeNames[c05Types[c.typ]], "role", fmt.Sprint(c.role)}
	if d := tm.Diff(before, after, tm.Full); len(d) > 0 {
		res.Outcome = "escaped"
		res.Fail = core.Fail("outside_destination_modified", fmt.Sprintf("%s | session: %v / %v", trunc(strings.Join(d, " ; "), 500), e1, e2), ff...)
		return res
	}
	// information flow: block sums of the canary secret must never be sent, its bytes never copied
	want := rp.MakeSums(c05Secret, rp.LegalHead(len(c05Secret), 700, 16), script.Seed)
	if slog != nil {
		for _, rq := range slog.Requests {
			for _, b := range rq.Sums.Blocks {
				for _, wb := range want.Blocks {
					if b.Weak == wb.Weak {
						res.Outcome = "leaked"
						res.Fail = core.Fail("outside_file_read", "the generator sent block checksums computed over the canary file", ff...)
						return res
					}
				}
			}
		}
	}
	in, _ := tm.Snapshot(dest, true)
	for _, e := range in {
		if e.Type == tm.Reg && bytes.Contains(e.Data, c05Secret[:64]) {
			res.Outcome = "leaked"
			res.Fail = core.Fail("outside_file_read", fmt.Sprintf("destination file %q contains bytes of the canary file", e.Path), ff...)
			return res
		}
	}
	reached := strings.Contains(fmt.Sprint(e1, e2, extra), "escapes") || len(in) > len(pre)
	res.Nontrivial = reached
	res.Outcome = fmt.Sprintf("contained/err=%v/reached=%v", e1 != nil, reached)
	return res
}

// serverFlagArgs renders client options the way they travel to a daemon.
func serverFlagArgs(opts []string) []string {
	var out []string
	for _, o := range opts {
		if o == "-a" {
			out = append(out, "-logDtpr")
		} else {
			out = append(out, o)
		}
	}
	return out
}

func c05BuildLists(tier string) core.Source {
	drive.Quiet()
	var cases []c05Case
	for vec := range c05Vectors() {
		for typ := range c05Types {
			for role := 0; role < 2; role++ {
				for opt := range c05Opts {
					for _, pop := range []bool{false, true} {
						cases = append(cases, c05Case{vec, typ, role, opt, pop, false})
						if c05Types[typ] == tm.Reg {
							cases = append(cases, c05Case{vec, typ, role, opt, pop, true})
						}
					}
				}
			}
		}
	}
	return core.FuncSource{N: len(cases), F: func(i int) core.Result { return c05Run(cases[i]) }}
}

// c05BuildSubdir: the sub-directory argument of a daemon upload.
func c05BuildSubdir(tier string) core.Source {
	drive.Quiet()
	targets := []string{"w/..", "w/../", "w/sub/../..", "w/sub/../../canary", "w//ABS/canary", "w/out", "w/out/", "w/out/deeper", "w/absout/", "w/../canary/dir/", "w/./../x/",
		// a sibling whose path merely starts with the module's path (dst-archive next to dst), reached by name, through links and below them
		"w/../dst-archive/", "w/../dst-archive", "w/sub/../../dst-archive/", "w/pfx/", "w/pfx", "w/pfx/inner/", "w/abspfx/", "w/abspfx/inner/newdir/", "w//ABS/dst-archive/"}
	type cs struct {
		t   int
		opt int
	}
	var cases []cs
	for t := range targets {
		for o := range c05Opts {
			cases = append(cases, cs{t, o})
		}
	}
	return core.FuncSource{N: len(cases), F: func(i int) core.Result {
		c := cases[i]
		dir := workDir()
		defer cleanup(dir)
		target := strings.ReplaceAll(targets[c.t], "/ABS", dir)
		res := core.Result{Case: fmt.Sprintf("daemon upload into sub-directory argument %q opts=%v", targets[c.t], c05Opts[c.opt])}
		c05Canary().Materialise(dir)
		dest := filepath.Join(dir, "dst")
		pre := tm.Tree{tm.D("sub", 0o755, tm.Past), tm.L("out", "../canary"), tm.L("absout", filepath.Join(dir, "canary")), tm.L("pfx", "../dst-archive"), tm.L("abspfx", filepath.Join(dir, "dst-archive"))}
		pre.Materialise(dest)
		tm.Tree{tm.File("x", []byte("archive x"), 0o640, tm.Past), tm.File("secret", c05Secret, 0o600, tm.Past), tm.D("inner", 0o750, tm.Past), tm.File("inner/keep", []byte("keep"), 0o644, tm.Past)}.Materialise(filepath.Join(dir, "dst-archive"))
		snap := func() tm.Tree {
			t, _ := tm.Snapshot(dir, false)
			var out tm.Tree
			for _, e := range t {
				if e.Path == "dst" || strings.HasPrefix(e.Path, "dst/") {
					continue
				}
				out = append(out, e)
			}
			return out
		}
		before := snap()
		list := &rp.FList{Entries: []rp.FEntry{
			{Name: []byte("."), Len: 4096, Mtime: tm.Past + 5, Mode: rp.SIFDIR | 0o700, TopDir: true},
			{Name: []byte("x"), Len: 5, Mtime: tm.Past + 99, Mode: rp.SIFREG | 0o666},
			{Name: []byte("secret"), Len: 5, Mtime: tm.Past + 99, Mode: rp.SIFREG | 0o666},
			{Name: []byte("dir"), Len: 4096, Mtime: tm.Past + 99, Mode: rp.SIFDIR | 0o777},
		}}
		data := map[int32][]byte{}
		for k, e := range rp.SortedIndex(list.Entries) {
			if e.Mode&rp.SIFMT == rp.SIFREG {
				data[int32(k)] = []byte("PWNED")
			}
		}
		script := &peer.SenderScript{List: list, LOpts: rp.ListOpts{UID: c.opt != 1, GID: c.opt != 1, Devices: true, Specials: true, Links: true}, Seed: 5, Data: data, HalfClose: true}
		args := append([]string{"--server"}, serverFlagArgs(c05Opts[c.opt])...)
		args = append(args, ".", target)
		e1, slog, _, e2, _ := peer.DaemonVsScriptedClient([]rsyncd.Module{{Name: "w", Path: dest, Writable: true}}, "w", args, script, c.opt == 2)
		cnt(&res, "transitions", 1)
		cnt(&res, "states", int64(len(before)))
		cnt(&res, "traces_validated_against_impl", 1)
		if d := tm.Diff(before, snap(), tm.Full); len(d) > 0 {
			res.Fail = core.Fail("outside_destination_modified", fmt.Sprintf("%s | session: %v / %v", trunc(strings.Join(d, " ; "), 500), e1, e2), "vector", "subdir-argument")
			return res
		}
		want := rp.MakeSums(c05Secret, rp.LegalHead(len(c05Secret), 700, 16), script.Seed)
		for _, rq := range slog.Requests {
			for _, b := range rq.Sums.Blocks {
				if b.Weak == want.Blocks[0].Weak {
					res.Fail = core.Fail("outside_file_read", "block checksums of the canary file were sent", "vector", "subdir-argument")
					return res
				}
			}
		}
		res.Nontrivial = e1 != nil
		res.Outcome = fmt.Sprintf("contained/err=%v", e1 != nil)
		return res
	}}
}

func init() {
	core.Register(&core.Prop{
		ID:    "C05",
		Level: "model_checking",
		Rule: "lists: a scripted hostile sender (as server of a pulling client, and as client of a writable daemon module) sends every file list built from escape vector {../x, a/../../x, sub/../../canary/x, absolute path, through a pre-existing relative / absolute directory symlink (existing and new name), onto a pre-existing file symlink, through a symlink sent earlier in the same list, '..' itself, ../canary/dir} x entry type {regular with data, directory, symlink, fifo, socket, char device, block device} x options {-a, -rlD, -a --delete} x destination {empty, populated} — the full matrix of receiver file-system operations (lstat, open basis, temp file, rename, mkdir, symlink, chmod, chtimes, chown, unlink-to-make-room, mknod/mkfifo/bind, delete walk); subdir: hostile sub-directory arguments of a daemon upload. " +
			"oracle: the complete snapshot (content, mode, owner, ns mtime, link targets, entry set) of everything around the destination is identical before/after; no request carries block checksums of the canary file and no destination file contains its bytes. states = canary entries compared, transitions = sessions; non-trivial = list for which the receiver reached the targeted call (escape error or object created inside the root)",
		Assum: []string{"runs as root (chown/mknod would succeed if misdirected)", "landlock disabled in-process (it would only add protection)"},
		Parts: func(tier string) []core.Part {
			return []core.Part{{Name: "lists", Build: c05BuildLists}, {Name: "subdir", Build: c05BuildSubdir}}
		},
	})
}
