package props

import (
	"bytes"
	"fmt"
	"os"
	"path/filepath"
	"testing/fstest"
	"time"

	"github.com/gokrazy/rsync/internal/sender"
	"github.com/gokrazy/rsync/verifharness/core"
	"github.com/gokrazy/rsync/verifharness/drive"
	"github.com/gokrazy/rsync/verifharness/peer"
	rp "github.com/gokrazy/rsync/verifharness/refproto"
	tm "github.com/gokrazy/rsync/verifharness/treemodel"
)

// C02 — delta encoding and decoding are exact for every basis, target and block layout.

// allStrings enumerates all strings over alphabet with length 0..maxLen in
// length-then-lexicographic order.
func allStrings(alphabet []byte, maxLen int) [][]byte {
	out := [][]byte{{}}
	prev := [][]byte{{}}
	for l := 1; l <= maxLen; l++ {
		var cur [][]byte
		for _, p := range prev {
			for _, c := range alphabet {
				s := append(append([]byte{}, p...), c)
				cur = append(cur, s)
			}
		}
		out = append(out, cur...)
		prev = cur
	}
	return out
}

type c02Space struct {
	alphabet []byte
	maxLen   int
	maxB     int32
	s2lens   []int32
}

func c02Spaces(tier string) []c02Space {
	if tier == "thorough" {
		return []c02Space{
			{[]byte{'a', 0xfe}, 8, 4, []int32{16, 2}},
			{[]byte{'a', 'b', 0x80}, 5, 4, []int32{16, 2}},
		}
	}
	return []c02Space{{[]byte{'a', 0xfe}, 6, 4, []int32{16}}, {[]byte{'a', 0xfe}, 4, 4, []int32{2}}}
}

// c02CheckResponse validates one sender response against the reference.
func c02CheckResponse(resp *peer.Response, reqIdx int32, sums rp.Sums, basis, target []byte, seed int32) *core.Failure {
	ff := []string{"s2len", fmt.Sprint(sums.Head.S2Len), "target_empty", fmt.Sprint(len(target) == 0), "basis_empty", fmt.Sprint(len(basis) == 0)}
	if resp.Idx != reqIdx {
		return core.Fail("wrong_index_echo", fmt.Sprintf("requested %d got %d", reqIdx, resp.Idx), ff...)
	}
	// The receiver interprets block references with the head the sender
	// echoes, so the stream is denoted under the *echoed* head; a head that
	// differs from the requested one only matters if references occur.
	hasRef := false
	for _, t := range resp.Toks {
		if !t.IsLit() {
			hasRef = true
		}
	}
	if hasRef && resp.Head != sums.Head {
		return core.Fail("wrong_head_echo", fmt.Sprintf("sent %+v got %+v with block references in the stream", sums.Head, resp.Head), ff...)
	}
	den, err := rp.Denote(resp.Toks, basis, sums.Head)
	if err != nil {
		return core.Fail("invalid_block_reference", err.Error(), ff...)
	}
	if !bytes.Equal(den, target) {
		// allowed only with truncated strong sums: every wrong reference must be a (weak, truncated strong) collision
		legit := sums.Head.S2Len < 16
		if legit {
			off := 0
			for _, t := range resp.Toks {
				if t.IsLit() {
					off += len(t.Lit)
					continue
				}
				blk, _ := rp.BlockOf(basis, sums.Head, t.Ref)
				if off+len(blk) > len(target) {
					legit = false
					break
				}
				seg := target[off : off+len(blk)]
				if !bytes.Equal(seg, blk) {
					st := rp.Strong(seed, seg)
					if rp.Weak(seg) != sums.Blocks[t.Ref].Weak || !bytes.Equal(st[:sums.Head.S2Len], sums.Blocks[t.Ref].Strong[:sums.Head.S2Len]) {
						legit = false
						break
					}
				}
				off += len(blk)
			}
		}
		if !legit {
			return core.Fail("stream_denotes_other_bytes", fmt.Sprintf("target=%x basis=%x head=%+v tokens=%s denotes=%x", trunc(string(target), 40), trunc(string(basis), 40), sums.Head, tokStr(resp.Toks), trunc(string(den), 40)), ff...)
		}
	}
	if want := rp.FileSum(seed, target); resp.Trailer != want {
		return core.Fail("wrong_file_checksum", fmt.Sprintf("target=%x trailer=%x want=%x", trunc(string(target), 40), resp.Trailer, want), ff...)
	}
	return nil
}

func tokStr(toks []rp.Token) string {
	var b bytes.Buffer
	for i, t := range toks {
		if i > 0 {
			b.WriteByte(' ')
		}
		if i > 12 {
			fmt.Fprintf(&b, "…(%d more)", len(toks)-i)
			break
		}
		if t.IsLit() {
			if len(t.Lit) <= 8 {
				fmt.Fprintf(&b, "L%x", t.Lit)
			} else {
				fmt.Fprintf(&b, "L[%d]", len(t.Lit))
			}
		} else {
			fmt.Fprintf(&b, "R%d", t.Ref)
		}
	}
	return b.String()
}

const c02Seed = 0x5eed1234

func c02BuildSenderSmall(tier string) core.Source {
	type cs struct {
		sp     c02Space
		target []byte
		all    [][]byte
	}
	var cases []cs
	for _, sp := range c02Spaces(tier) {
		all := allStrings(sp.alphabet, sp.maxLen)
		for _, t := range all {
			cases = append(cases, cs{sp, t, all})
		}
	}
	return core.FuncSource{N: len(cases), F: func(i int) core.Result {
		c := cases[i]
		res := core.Result{Case: fmt.Sprintf("target=%x alphabet=%x maxLen=%d B<=%d s2len=%v x all bases", c.target, c.sp.alphabet, c.sp.maxLen, c.sp.maxB, c.sp.s2lens)}
		mfs := fstest.MapFS{"t": &fstest.MapFile{Data: c.target, Mode: 0o644, ModTime: time.Unix(tm.Past, 0)}}
		rs, err := peer.StartSender(sender.NewFSSource(mfs), "mod", []string{"/"}, []string{"--server", "--sender", "-r"}, c02Seed)
		if err != nil {
			res.Inconcl = err.Error()
			return res
		}
		defer rs.Close()
		fl, err := rp.DecodeList(rs.Gen.R, rp.ListOpts{})
		if err != nil {
			res.Fail = core.Fail("list_undecodable", err.Error())
			return res
		}
		sorted := rp.SortedIndex(fl.Entries)
		idx := int32(-1)
		for k, e := range sorted {
			if string(e.Name) == "t" {
				idx = int32(k)
			}
		}
		if idx < 0 {
			res.Fail = core.Fail("target_not_listed", fmt.Sprintf("%d entries", len(sorted)))
			return res
		}
		mixed := 0
		for _, basis := range c.all {
			for b := int32(1); b <= c.sp.maxB; b++ {
				for _, s2 := range c.sp.s2lens {
					head := rp.LegalHead(len(basis), b, s2)
					sums := rp.MakeSums(basis, head, c02Seed)
					resp, err := rs.Gen.Request(idx, sums)
					cnt(&res, "transitions", 1)
					if err != nil {
						err = fmt.Errorf("%v; sender error: %v", err, rs.Close())
						res.Fail = core.Fail("sender_stopped", fmt.Sprintf("basis=%x B=%d: %v", basis, b, err), "target_empty", fmt.Sprint(len(c.target) == 0), "basis_empty", fmt.Sprint(len(basis) == 0))
						return res
					}
					if f := c02CheckResponse(resp, idx, sums, basis, c.target, c02Seed); f != nil {
						f.Detail = fmt.Sprintf("B=%d ", b) + f.Detail
						res.Fail = f
						return res
					}
					hasL, hasR := false, false
					for _, t := range resp.Toks {
						if t.IsLit() {
							hasL = true
						} else {
							hasR = true
						}
					}
					if hasL && hasR {
						mixed++
					}
				}
			}
		}
		if err := rs.Gen.Finish(true); err != nil {
			res.Fail = core.Fail("finish_failed", err.Error())
			return res
		}
		if err := rs.Close(); err != nil {
			res.Fail = core.Fail("sender_error", err.Error())
			return res
		}
		cnt(&res, "states", res.Counters["transitions"])
		cnt(&res, "traces_validated_against_impl", res.Counters["transitions"])
		cnt(&res, "mixed_streams", int64(mixed))
		res.Nontrivial = mixed > 0
		res.Outcome = fmt.Sprintf("ok/mixed>0=%v", mixed > 0)
		return res
	}}
}

// ---- receiver side: every short token stream against the real receiver

type c02Sym struct {
	tok rp.Token
}

func c02BuildReceiverSmall(tier string) core.Source {
	drive.Quiet()
	maxTok, maxBasis := 3, 4
	if tier == "thorough" {
		maxTok = 4
	}
	bases := allStrings([]byte{'a', 0xfe}, maxBasis)
	type cs struct {
		basis []byte
		b     int32
	}
	var cases []cs
	for _, ba := range bases {
		for b := int32(1); b <= 3; b++ {
			cases = append(cases, cs{ba, b})
		}
	}
	return core.FuncSource{N: len(cases), F: func(i int) core.Result {
		c := cases[i]
		head := rp.LegalHead(len(c.basis), c.b, 16)
		res := core.Result{Case: fmt.Sprintf("basis=%x B=%d head=%+v x all token streams of <=%d tokens", c.basis, c.b, head, maxTok)}
		alphabet := []rp.Token{rp.Lit([]byte{'a'}), rp.Lit([]byte{0xfe}), rp.Lit([]byte{'a', 0xfe})}
		for k := int32(0); k < head.Count; k++ {
			alphabet = append(alphabet, rp.Ref(k))
		}
		var streams [][]rp.Token
		var gen func(prefix []rp.Token)
		gen = func(prefix []rp.Token) {
			streams = append(streams, append([]rp.Token{}, prefix...))
			if len(prefix) == maxTok {
				return
			}
			for _, t := range alphabet {
				gen(append(prefix, t))
			}
		}
		gen(nil)
		dir := workDir()
		defer cleanup(dir)
		dest := filepath.Join(dir, "dst")
		os.MkdirAll(dest, 0o755)
		list := &rp.FList{}
		want := map[string][]byte{}
		replies := map[int32]*peer.Reply{}
		names := make([]string, len(streams))
		for k := range streams {
			names[k] = fmt.Sprintf("f%05d", k)
		}
		for k, st := range streams {
			den, err := rp.Denote(st, c.basis, head)
			if err != nil {
				res.Inconcl = "harness: " + err.Error()
				return res
			}
			if err := os.WriteFile(filepath.Join(dest, names[k]), c.basis, 0o644); err != nil {
				res.Inconcl = err.Error()
				return res
			}
			os.Chtimes(filepath.Join(dest, names[k]), time.Unix(tm.Past-500, 0), time.Unix(tm.Past-500, 0))
			list.Entries = append(list.Entries, rp.FEntry{Name: []byte(names[k]), Len: int64(len(den)), Mtime: tm.Past, Mode: rp.SIFREG | 0o644})
			want[names[k]] = den
			replies[int32(k)] = &peer.Reply{Idx: int32(k), Head: head, Toks: st, Trailer: rp.FileSum(c02Seed, den)}
		}
		script := &peer.SenderScript{List: list, Seed: c02Seed, Reply: func(req peer.Request) *peer.Reply { return replies[req.Idx] }}
		rerr, slog, serr, _ := peer.RunReceiver(dest, peer.RecvOpts{Times: true}, c02Seed, script)
		cnt(&res, "transitions", int64(len(streams)))
		cnt(&res, "states", int64(len(streams)))
		cnt(&res, "traces_validated_against_impl", int64(len(streams)))
		if rerr != nil || serr != nil {
			res.Fail = core.Fail("valid_stream_rejected", fmt.Sprintf("receiver=%v scripted-sender=%v requests=%d", rerr, serr, len(slog.Requests)), "basis_empty", fmt.Sprint(len(c.basis) == 0))
			return res
		}
		if len(slog.Requests) != len(streams) {
			res.Fail = core.Fail("not_all_files_requested", fmt.Sprintf("%d of %d", len(slog.Requests), len(streams)))
			return res
		}
		for k, st := range streams {
			got, err := os.ReadFile(filepath.Join(dest, names[k]))
			if err != nil {
				res.Fail = core.Fail("file_missing", err.Error())
				return res
			}
			if !bytes.Equal(got, want[names[k]]) {
				res.Fail = core.Fail("receiver_wrote_other_bytes", fmt.Sprintf("basis=%x head=%+v stream=%s wrote=%x want=%x", c.basis, head, tokStr(st), got, want[names[k]]))
				return res
			}
		}
		res.Nontrivial = head.Count > 0
		res.Outcome = fmt.Sprintf("ok/refs=%v", head.Count > 0)
		return res
	}}
}

// c02BuildReceiverLarge: token streams at the scale other senders produce
// them: literal tokens of any positive length (tridge sends <= 32 KiB, the
// format allows any), thousands of tokens, large blocks, references in any
// order and multiplicity incl. the short last block first.
func c02BuildReceiverLarge(tier string) core.Source {
	drive.Quiet()
	type shape struct {
		name  string
		basis []byte
		b     int32
		toks  func(head rp.SumHead) []rp.Token
	}
	small := genData(famHash, 2100, 21)
	bigB := genData(famHash, 5*131072+1000, 22)
	many := genData(famHash, 3000*8, 23)
	chunks := func(data []byte, c int) []rp.Token {
		var out []rp.Token
		for off := 0; off < len(data); off += c {
			out = append(out, rp.Lit(data[off:min(off+c, len(data))]))
		}
		return out
	}
	var shapes []shape
	for _, n := range []int{32767, 32768, 262143, 262144, 262145, 1 << 20, 3<<20 + 1} {
		n := n
		shapes = append(shapes, shape{fmt.Sprintf("one literal token of %d bytes", n), small, 700, func(rp.SumHead) []rp.Token { return []rp.Token{rp.Lit(genData(famHash, n, uint32(n)))} }})
	}
	for _, c := range []int{1000, 4092, 32768, 262151} {
		c := c
		shapes = append(shapes, shape{fmt.Sprintf("600001 literal bytes in tokens of %d", c), small, 700, func(rp.SumHead) []rp.Token { return chunks(genData(famHash, 600001, 9), c) }})
	}
	shapes = append(shapes,
		shape{"6 blocks of 131072 (+remainder 1000) referenced in reverse order, short block first", bigB, 131072, func(h rp.SumHead) []rp.Token {
			var out []rp.Token
			for k := h.Count - 1; k >= 0; k-- {
				out = append(out, rp.Ref(k))
			}
			return out
		}},
		shape{"large blocks each referenced twice with 100000-byte literals in between", bigB, 131072, func(h rp.SumHead) []rp.Token {
			var out []rp.Token
			for k := int32(0); k < h.Count; k++ {
				out = append(out, rp.Ref(k), rp.Lit(genData(famHash, 100000, uint32(k))), rp.Ref(h.Count-1-k))
			}
			return out
		}},
		shape{"3000 blocks of 8 bytes referenced in reverse order", many, 8, func(h rp.SumHead) []rp.Token {
			var out []rp.Token
			for k := h.Count - 1; k >= 0; k-- {
				out = append(out, rp.Ref(k))
			}
			return out
		}},
		shape{"one 8-byte block referenced 3000 times", many, 8, func(h rp.SumHead) []rp.Token {
			var out []rp.Token
			for k := 0; k < 3000; k++ {
				out = append(out, rp.Ref(1499))
			}
			return out
		}},
		shape{"3000 references alternating with 1-byte literals", many, 8, func(h rp.SumHead) []rp.Token {
			var out []rp.Token
			for k := int32(0); k < h.Count; k++ {
				out = append(out, rp.Ref((k*7)%h.Count), rp.Lit([]byte{byte(k)}))
			}
			return out
		}},
		shape{"a 700-byte block repeated 2000 times (output 666 times the basis)", small, 700, func(h rp.SumHead) []rp.Token {
			var out []rp.Token
			for k := 0; k < 2000; k++ {
				out = append(out, rp.Ref(1))
			}
			return out
		}},
		shape{"empty stream over a large basis (file truncated to nothing)", bigB, 131072, func(h rp.SumHead) []rp.Token { return nil }},
	)
	return core.FuncSource{N: len(shapes), F: func(i int) core.Result {
		sh := shapes[i]
		head := rp.LegalHead(len(sh.basis), sh.b, 16)
		toks := sh.toks(head)
		res := core.Result{Case: fmt.Sprintf("receiver-large: %s (B=%d, %d tokens)", sh.name, sh.b, len(toks))}
		den, err := rp.Denote(toks, sh.basis, head)
		if err != nil {
			res.Inconcl = "harness: " + err.Error()
			return res
		}
		dir := workDir()
		defer cleanup(dir)
		dest := filepath.Join(dir, "dst")
		os.MkdirAll(dest, 0o755)
		os.WriteFile(filepath.Join(dest, "f"), sh.basis, 0o644)
		os.Chtimes(filepath.Join(dest, "f"), time.Unix(tm.Past-500, 0), time.Unix(tm.Past-500, 0))
		list := &rp.FList{Entries: []rp.FEntry{{Name: []byte("f"), Len: int64(len(den)), Mtime: tm.Past, Mode: rp.SIFREG | 0o644}}}
		script := &peer.SenderScript{List: list, Seed: c02Seed, Reply: func(req peer.Request) *peer.Reply {
			return &peer.Reply{Idx: req.Idx, Head: head, Toks: toks, Trailer: rp.FileSum(c02Seed, den)}
		}}
		rerr, slog, serr, _ := peer.RunReceiver(dest, peer.RecvOpts{Times: true}, c02Seed, script)
		cnt(&res, "transitions", int64(len(toks)))
		cnt(&res, "states", 1)
		cnt(&res, "traces_validated_against_impl", 1)
		if rerr != nil || serr != nil {
			res.Fail = core.Fail("valid_stream_rejected", fmt.Sprintf("receiver=%v scripted-sender=%v requests=%d", rerr, serr, len(slog.Requests)), "part", "receiver-large")
			return res
		}
		got, err := os.ReadFile(filepath.Join(dest, "f"))
		if err != nil || !bytes.Equal(got, den) {
			res.Fail = core.Fail("receiver_wrote_other_bytes", fmt.Sprintf("%s: wrote %d bytes, want %d (first difference at %d, err %v)", sh.name, len(got), len(den), firstDiff(got, den), err), "part", "receiver-large")
			return res
		}
		res.Nontrivial = true
		res.Outcome = "ok/large"
		return res
	}}
}

func init() {
	core.Register(&core.Prop{
		ID:    "C02",
		Level: "model_checking",
		Rule: "sender-small: the real sender serves every target over a 2-3 letter alphabet (incl. bytes >= 0x80) up to length L against every basis of the same universe under every legal head with block length 1..k and strong length 16 (and 2): every alignment, repetition, duplicate block, remainder shape and natural weak-checksum collision at that scale; each response is checked for index/head echo, exact denotation over the basis and MD4(seed||target) trailer. " +
			"receiver-small: the real receiver is fed every token stream of <=3 (4) tokens over {literal a, literal fe, literal a·fe, ref i for every i} for every basis of length <=4 and block length 1..3 and must write exactly the denotation; receiver-large: 19 streams at the scale other senders produce (single literal tokens of 32767..3 MiB+1 bytes, 600001 bytes in tokens of 1000/4092/32768/262151, 131072-byte blocks in reverse order with the short block first, 3000 8-byte blocks reversed / one block 3000 times / alternating with 1-byte literals, a block repeated 2000 times, empty stream). sender-large: structured layouts (copy of first/second/last/short block, literals of 1, B-1, B, B+1, 256 KiB+1 and 600001 bytes, weak-checksum twin of block 0) as all edit scripts of depth <=2 at block lengths 700, 2048 and — above the sender's 256 KiB read chunk — 262145 and 300000 (thorough: depth <=3 at 700..131072, depth 2 at 262144, 262145, 300000, 2^20). " +
			"states = (target,basis,layout) or (basis,stream) triples, transitions = requests answered / streams applied; non-trivial = case with at least one response mixing literals and references (sender) or with block references available (receiver)",
		Assum: []string{"refproto's MD4 (x/crypto) and weak checksum definitions are correct (cross-checked against each other by every accepted session)"},
		Parts: func(tier string) []core.Part {
			return []core.Part{
				{Name: "sender-small", Build: c02BuildSenderSmall},
				{Name: "receiver-small", Build: c02BuildReceiverSmall},
				{Name: "receiver-large", Build: c02BuildReceiverLarge},
				{Name: "sender-large", Build: c02BuildSenderLarge},
				{Name: "sender-forged", Build: c02BuildSenderForged},
				{Name: "sender-collisions", Build: c02BuildSenderCollisions},
			}
		},
	})
}

// c02BuildSenderForged: the sum set carries, for every block of the target
// itself, the right weak checksum and a strong checksum that agrees with the
// true one only in its first k bytes (k < 16). Such a set is what a receiver
// sends for a basis whose blocks collide with the target's in the weak sum and
// in k bytes of MD4; a sender comparing full-length strong sums must not emit
// a single block reference for it.
func c02BuildSenderForged(tier string) core.Source {
	maxLen := 5
	if tier == "thorough" {
		maxLen = 7
	}
	targets := allStrings([]byte{'a', 0xfe}, maxLen)[1:]
	return core.FuncSource{N: len(targets), F: func(i int) core.Result {
		target := targets[i]
		res := core.Result{Case: fmt.Sprintf("forged sums: target=%x, B=1..4, strong sums agree in first k bytes only, k in {0,1,2,8,15}", target)}
		mfs := fstest.MapFS{"t": &fstest.MapFile{Data: target, Mode: 0o644, ModTime: time.Unix(tm.Past, 0)}}
		rs, err := peer.StartSender(sender.NewFSSource(mfs), "mod", []string{"/"}, []string{"--server", "--sender", "-r"}, c02Seed)
		if err != nil {
			res.Inconcl = err.Error()
			return res
		}
		defer rs.Close()
		fl, err := rp.DecodeList(rs.Gen.R, rp.ListOpts{})
		if err != nil {
			res.Fail = core.Fail("list_undecodable", err.Error())
			return res
		}
		idx := int32(-1)
		for k, e := range rp.SortedIndex(fl.Entries) {
			if string(e.Name) == "t" {
				idx = int32(k)
			}
		}
		for b := int32(1); b <= 4; b++ {
			for _, k := range []int{0, 1, 2, 8, 15} {
				head := rp.LegalHead(len(target), b, 16)
				sums := rp.MakeSums(target, head, c02Seed)
				for j := range sums.Blocks {
					for x := k; x < 16; x++ {
						sums.Blocks[j].Strong[x] ^= 0xa5
					}
				}
				resp, err := rs.Gen.Request(idx, sums)
				cnt(&res, "transitions", 1)
				if err != nil {
					res.Fail = core.Fail("sender_stopped", err.Error())
					return res
				}
				for _, t := range resp.Toks {
					if !t.IsLit() {
						res.Fail = core.Fail("reference_on_strong_mismatch", fmt.Sprintf("target=%x B=%d: strong sums agree only in the first %d bytes but the sender referenced block %d (tokens %s)", target, b, k, t.Ref, tokStr(resp.Toks)), "agree_bytes", fmt.Sprint(k))
						return res
					}
				}
				den, _ := rp.Denote(resp.Toks, nil, head)
				if !bytes.Equal(den, target) || resp.Trailer != rp.FileSum(c02Seed, target) {
					res.Fail = core.Fail("stream_denotes_other_bytes", fmt.Sprintf("target=%x B=%d k=%d tokens=%s", target, b, k, tokStr(resp.Toks)))
					return res
				}
			}
		}
		rs.Gen.Finish(true)
		if err := rs.Close(); err != nil {
			res.Fail = core.Fail("sender_error", err.Error())
			return res
		}
		cnt(&res, "states", res.Counters["transitions"])
		cnt(&res, "traces_validated_against_impl", res.Counters["transitions"])
		res.Nontrivial = true
		res.Outcome = "ok/forged"
		return res
	}}
}

// c02BuildSenderCollisions: targets and bases assembled from whole 4-byte
// blocks that collide in the weak checksum (e.g. abba / baab) plus one plain
// block, so that collisions occur at every position relative to true matches
// (first block, right after a match, before a match, as remainder).
func c02BuildSenderCollisions(tier string) core.Source {
	words := allStrings([]byte{'a', 0xfe}, 4)
	byWeak := map[uint32][][]byte{}
	for _, w := range words {
		if len(w) == 4 {
			byWeak[rp.Weak(w)] = append(byWeak[rp.Weak(w)], w)
		}
	}
	var blocks [][]byte
	for _, ws := range byWeak {
		if len(ws) >= 2 {
			blocks = append(blocks, ws...)
		}
	}
	sortBytes(blocks)
	blocks = append(blocks, []byte{'a', 'a', 'a', 0xfe})
	maxBlocks := 3
	var seqs [][]byte
	var gen func(p []byte, n int)
	gen = func(p []byte, n int) {
		if n > 0 {
			seqs = append(seqs, append([]byte{}, p...))
		}
		if n == maxBlocks {
			return
		}
		for _, b := range blocks {
			gen(append(p, b...), n+1)
		}
	}
	gen(nil, 0)
	// also unaligned tails: every sequence followed by a 1..3 byte remainder of the first block
	n0 := len(seqs)
	for i := 0; i < n0; i++ {
		if len(seqs[i]) <= 8 {
			seqs = append(seqs, append(append([]byte{}, seqs[i]...), blocks[0][:2]...))
		}
	}
	return core.FuncSource{N: len(seqs), F: func(i int) core.Result {
		target := seqs[i]
		res := core.Result{Case: fmt.Sprintf("weak-collision blocks: target=%x against every basis assembled from %d colliding 4-byte blocks, B=4, strong length 16", target, len(blocks))}
		mfs := fstest.MapFS{"t": &fstest.MapFile{Data: target, Mode: 0o644, ModTime: time.Unix(tm.Past, 0)}}
		rs, err := peer.StartSender(sender.NewFSSource(mfs), "mod", []string{"/"}, []string{"--server", "--sender", "-r"}, c02Seed)
		if err != nil {
			res.Inconcl = err.Error()
			return res
		}
		defer rs.Close()
		fl, err := rp.DecodeList(rs.Gen.R, rp.ListOpts{})
		if err != nil {
			res.Fail = core.Fail("list_undecodable", err.Error())
			return res
		}
		idx := int32(-1)
		for k, e := range rp.SortedIndex(fl.Entries) {
			if string(e.Name) == "t" {
				idx = int32(k)
			}
		}
		mixed := 0
		for _, basis := range seqs {
			head := rp.LegalHead(len(basis), 4, 16)
			sums := rp.MakeSums(basis, head, c02Seed)
			resp, err := rs.Gen.Request(idx, sums)
			cnt(&res, "transitions", 1)
			if err != nil {
				res.Fail = core.Fail("sender_stopped", fmt.Sprintf("basis=%x: %v; sender error: %v", basis, err, rs.Close()))
				return res
			}
			if f := c02CheckResponse(resp, idx, sums, basis, target, c02Seed); f != nil {
				f.Features["collision_blocks"] = "true"
				res.Fail = f
				return res
			}
			for _, t := range resp.Toks {
				if !t.IsLit() {
					mixed++
					break
				}
			}
		}
		rs.Gen.Finish(true)
		cnt(&res, "states", res.Counters["transitions"])
		cnt(&res, "traces_validated_against_impl", res.Counters["transitions"])
		res.Nontrivial = mixed > 0
		res.Outcome = fmt.Sprintf("ok/refs>0=%v", mixed > 0)
		return res
	}}
}

func sortBytes(b [][]byte) {
	for i := range b {
		for j := i + 1; j < len(b); j++ {
			if bytes.Compare(b[j], b[i]) < 0 {
				b[i], b[j] = b[j], b[i]
			}
		}
	}
}
