package props

import "runtime"

type discard struct{}

func (discard) Write(p []byte) (int, error) { return len(p), nil }

type nullLogger struct{}

func (nullLogger) Printf(string, ...any)    {}
func (nullLogger) Output(int, string) error { return nil }

func trunc(s string, n int) string {
	if len(s) > n {
		return s[:n] + "…"
	}
	return s
}

func setMaxProcs(n int) int { return runtime.GOMAXPROCS(n) }
