package props

import (
	"bytes"
	"fmt"
	"os"
	"path/filepath"
	"sort"
	"strings"

	"github.com/gokrazy/rsync/rsyncd"
	"github.com/gokrazy/rsync/verifharness/core"
	"github.com/gokrazy/rsync/verifharness/drive"
	"github.com/gokrazy/rsync/verifharness/peer"
	rp "github.com/gokrazy/rsync/verifharness/refproto"
	tm "github.com/gokrazy/rsync/verifharness/treemodel"
	"golang.org/x/sys/unix"
)

// C12 — files are re-sent exactly when the update rule says so; repeat syncs are no-ops.

type c12Cell struct {
	size  int // 0 missing, 1 same size, 2 destination larger, 3 destination smaller
	mt    int // 0 equal, 1 +1s, 2 -1s, 3 sub-second only, 4 far apart, 5 previous second +0.6s, 6 next second +0.4s, 7 same second +0.999999999s
	diff  bool
	opt   int // 0 default, 1 -c, 2 -I, 3 -cI
	times bool
	pos   int // sibling position 0,1,2
	role  int // 0 client receiver, 1 daemon module receiver
	typ   int // 0 regular; 1: destination is a symlink; 2: destination is a fifo (not a regular file)
}

var c12SizeN = []string{"missing", "same-size", "dest-larger", "dest-smaller"}
var c12MtN = []string{"mtime-equal", "mtime+1s", "mtime-1s", "subsecond-only", "far-apart", "prev-second+0.6s", "next-second+0.4s", "same-second+0.999999999s"}
var c12OptN = []string{"default", "-c", "-I", "-cI"}

func (c c12Cell) String() string {
	return fmt.Sprintf("%s/%s/content-differs=%v/%s/-t=%v/pos=%d/role=%s/desttype=%d", c12SizeN[c.size], c12MtN[c.mt], c.diff, c12OptN[c.opt], c.times, c.pos, []string{"client", "daemon"}[c.role], c.typ)
}

// prescribed: must the receiver request the file?
func (c c12Cell) request() bool {
	if c.size == 0 || c.typ != 0 {
		return true // missing or not a regular file
	}
	if c.size >= 2 {
		return true
	}
	switch c.opt {
	case 1, 3: // -c (with or without -I): size equal -> checksum decides
		return c.diff
	case 2:
		return true
	}
	return c.mt == 1 || c.mt == 2 || c.mt == 4 || c.mt == 5 || c.mt == 6
}

const c12Seed = 0x0c12c12

func c12Run(c c12Cell) core.Result {
	res := core.Result{Case: c.String()}
	dir := workDir()
	defer cleanup(dir)
	dest := filepath.Join(dir, "dst")
	os.MkdirAll(dest, 0o755)
	names := []string{"a", "m", "z"}
	target := names[c.pos]
	var others []string
	for _, n := range names {
		if n != target {
			others = append(others, n)
		}
	}
	upToDate, missing := others[0], others[1]
	srcData := map[string][]byte{
		target:   genData(famHash, 1000, 1),
		upToDate: genData(famHash, 900, 2),
		missing:  genData(famHash, 800, 3),
	}
	const T = int64(tm.Past)
	// destination: up-to-date sibling
	os.WriteFile(filepath.Join(dest, upToDate), srcData[upToDate], 0o644)
	setMtime(filepath.Join(dest, upToDate), T, 0)
	var prior []byte
	if c.size != 0 {
		switch c.typ {
		case 1:
			os.Symlink("nowhere", filepath.Join(dest, target))
		case 2:
			unix.Mkfifo(filepath.Join(dest, target), 0o644)
		default:
			n := 1000
			if c.size == 2 {
				n = 1001
			}
			if c.size == 3 {
				n = 999
			}
			if c.diff {
				prior = genData(famHash, n, 99)
			} else {
				prior = genData(famHash, n, 1)
				if n > 1000 { // different size cannot have equal content; keep a prefix
					prior = append(append([]byte{}, srcData[target]...), 0)
				}
				if n < 1000 {
					prior = srcData[target][:n]
				}
			}
			os.WriteFile(filepath.Join(dest, target), prior, 0o644)
			sec, nsec := T, int64(0)
			switch c.mt {
			case 1:
				sec = T + 1
			case 2:
				sec = T - 1
			case 3:
				nsec = 500_000_000
			case 4:
				sec = T - 86400*365
			case 5:
				sec, nsec = T-1, 600_000_000
			case 6:
				sec, nsec = T+1, 400_000_000
			case 7:
				nsec = 999_999_999
			}
			setMtime(filepath.Join(dest, target), sec, nsec)
		}
	}
	list := &rp.FList{}
	data := map[int32][]byte{}
	sortedNames := append([]string{}, names...)
	sort.Strings(sortedNames)
	for i, n := range sortedNames {
		list.Entries = append(list.Entries, rp.FEntry{Name: []byte(n), Len: int64(len(srcData[n])), Mtime: int32(T), Mode: rp.SIFREG | 0o644, Sum: rp.ListSum(srcData[n])})
		data[int32(i)] = srcData[n]
	}
	flags := "-r"
	if c.times {
		flags += "t"
	}
	switch c.opt {
	case 1:
		flags += "c"
	case 2:
		flags += "I"
	case 3:
		flags += "cI"
	}
	script := &peer.SenderScript{List: list, LOpts: rp.ListOpts{Checksum: c.opt == 1 || c.opt == 3}, Seed: c12Seed, Data: data}
	var slog *peer.SenderLog
	var e1, e2 error
	var extra string
	if c.role == 0 {
		e1, slog, _, e2, extra = peer.ClientVsScriptedServer([]string{flags}, dest, script)
	} else {
		e1, slog, extra, e2, _ = peer.DaemonVsScriptedClient([]rsyncd.Module{{Name: "w", Path: dest, Writable: true}}, "w", []string{"--server", flags, ".", "w/"}, script, false)
	}
	cnt(&res, "transitions", 1)
	cnt(&res, "states", 1)
	cnt(&res, "traces_validated_against_impl", 1)
	ff := []string{"opt", c12OptN[c.opt], "size", c12SizeN[c.size], "mtime", c12MtN[c.mt], "differs", fmt.Sprint(c.diff), "role", fmt.Sprint(c.role), "desttype", fmt.Sprint(c.typ)}
	if e1 != nil || e2 != nil {
		res.Fail = core.Fail("session_failed", fmt.Sprintf("real=%v scripted=%v %s", e1, e2, trunc(extra, 300)), ff...)
		return res
	}
	want := map[string]bool{missing: true}
	if c.request() {
		want[target] = true
	}
	got := map[string]bool{}
	for _, rq := range slog.Requests {
		if int(rq.Idx) < 0 || int(rq.Idx) >= len(sortedNames) {
			res.Fail = core.Fail("bad_index_requested", fmt.Sprint(rq.Idx), ff...)
			return res
		}
		if got[sortedNames[rq.Idx]] {
			res.Fail = core.Fail("requested_twice", sortedNames[rq.Idx], ff...)
			return res
		}
		got[sortedNames[rq.Idx]] = true
	}
	if got[target] != want[target] {
		sym := "requested_but_up_to_date"
		if want[target] {
			sym = "not_requested_but_changed"
		}
		res.Fail = core.Fail(sym, fmt.Sprintf("cell %s: requested=%v", c, keys(got)), ff...)
		return res
	}
	// the up-to-date sibling (same size, content and mtime) is requested only under -I without -c
	if !got[missing] || got[upToDate] != (c.opt == 2) {
		res.Fail = core.Fail("sibling_decision_wrong", fmt.Sprintf("cell %s: requested=%v (missing sibling %q must be requested, up-to-date sibling %q must not)", c, keys(got), missing, upToDate), ff...)
		return res
	}
	// contents afterwards
	after, _ := os.ReadFile(filepath.Join(dest, target))
	if want[target] {
		if !bytes.Equal(after, srcData[target]) {
			res.Fail = core.Fail("requested_file_not_updated", c.String(), ff...)
			return res
		}
	} else if !bytes.Equal(after, prior) {
		res.Fail = core.Fail("skipped_file_changed", c.String(), ff...)
		return res
	}
	res.Outcome = fmt.Sprintf("request=%v", want[target])
	res.Nontrivial = c.size == 1
	return res
}

func keys(m map[string]bool) string {
	var k []string
	for s := range m {
		k = append(k, s)
	}
	sort.Strings(k)
	return strings.Join(k, ",")
}

func setMtime(p string, sec, nsec int64) {
	ts := []unix.Timespec{{Sec: sec, Nsec: nsec}, {Sec: sec, Nsec: nsec}}
	unix.UtimesNanoAt(unix.AT_FDCWD, p, ts, unix.AT_SYMLINK_NOFOLLOW)
}

func c12BuildTable(tier string) core.Source {
	drive.Quiet()
	var cells []c12Cell
	for role := 0; role < 2; role++ {
		for pos := 0; pos < 3; pos++ {
			for opt := 0; opt < 4; opt++ {
				for _, times := range []bool{true, false} {
					for size := 0; size < 4; size++ {
						for mt := 0; mt < 8; mt++ {
							for _, diff := range []bool{false, true} {
								if size == 0 && (mt != 0 || diff) {
									continue // missing: other dimensions meaningless
								}
								if size >= 2 && !diff {
									continue
								}
								cells = append(cells, c12Cell{size: size, mt: mt, diff: diff, opt: opt, times: times, pos: pos, role: role})
							}
						}
					}
					for typ := 1; typ <= 2; typ++ {
						cells = append(cells, c12Cell{size: 1, opt: opt, times: times, pos: pos, role: role, typ: typ})
					}
				}
			}
		}
	}
	return core.FuncSource{N: len(cells), F: func(i int) core.Result { return c12Run(cells[i]) }}
}

// ---- histories: BFS over {touch, rewrite, sync(o)} on a 2-file universe with real sessions.

type c12File struct {
	content int   // content id
	size    int   // 1000 or 1100
	mtime   int64 // seconds relative to T
	half    bool  // +0.5s
	now     bool  // mtime is "now" (written by a transfer without -t)
	present bool
}

type c12State struct {
	src, dst [2]c12File
}

func (s c12State) key() string { return fmt.Sprintf("%+v", s) }

func c12Data(f c12File) []byte { return genData(famHash, f.size, uint32(f.content)) }

func c12Materialise(root string, fs [2]c12File) {
	os.MkdirAll(root, 0o755)
	for i, f := range fs {
		if !f.present {
			continue
		}
		p := filepath.Join(root, fmt.Sprintf("f%d", i))
		os.WriteFile(p, c12Data(f), 0o644)
		if !f.now {
			ns := int64(0)
			if f.half {
				ns = 500_000_000
			}
			setMtime(p, tm.Past+f.mtime, ns)
		}
	}
}

var c12SyncOpts = []string{"-rt", "-a", "-rc", "-rtI", "-r"}

// expected requests of sync with opts from state s (reference update rule)
func c12Expect(s c12State, opts string) (req [2]bool) {
	e := effective([]string{opts})
	for i := 0; i < 2; i++ {
		sf, df := s.src[i], s.dst[i]
		if !sf.present {
			continue
		}
		switch {
		case !df.present:
			req[i] = true
		case df.size != sf.size:
			req[i] = true
		case e.c:
			req[i] = df.content != sf.content
		case e.I:
			req[i] = true
		default:
			req[i] = df.now || df.mtime != sf.mtime // half-second differences are invisible
		}
	}
	return
}

func c12BuildHistories(tier string) core.Source {
	drive.Quiet()
	depth := 3
	if tier == "thorough" {
		depth = 4
	}
	// operations: 0..: edits on src file i, then syncs
	type op struct {
		kind string
		i    int
		arg  int
	}
	var ops []op
	for i := 0; i < 2; i++ {
		ops = append(ops, op{"touch+1", i, 0}, op{"touch-1", i, 0}, op{"touch+half", i, 0}, op{"rewrite-same-size", i, 0}, op{"rewrite-other-size", i, 0})
	}
	for k := range c12SyncOpts {
		ops = append(ops, op{"sync", 0, k})
	}
	init := c12State{}
	init.src[0] = c12File{content: 1, size: 1000, present: true}
	init.src[1] = c12File{content: 2, size: 1000, present: true}
	// BFS is driven inside one case per first operation so that work is sharded;
	// each worker deduplicates its own subtree by canonical state.
	return core.FuncSource{N: len(ops), F: func(first int) core.Result {
		res := core.Result{Case: fmt.Sprintf("histories starting with %v, depth<=%d", ops[first], depth)}
		type node struct {
			st   c12State
			path []int
		}
		seen := map[string]bool{}
		apply := func(n node, oi int) (node, *core.Failure) {
			o := ops[oi]
			st := n.st
			np := append(append([]int{}, n.path...), oi)
			if o.kind != "sync" {
				f := &st.src[o.i]
				switch o.kind {
				case "touch+1":
					f.mtime++
				case "touch-1":
					f.mtime--
				case "touch+half":
					f.half = !f.half
				case "rewrite-same-size":
					f.content += 10
				case "rewrite-other-size":
					f.content += 10
					f.size = 2100 - f.size
				}
				return node{st, np}, nil
			}
			// a real session
			opts := c12SyncOpts[o.arg]
			// every sync of this worker uses the SAME directory names, like a long-lived server whose module
			// content changes between requests: anything the process remembers by path must not go stale
			dir := filepath.Join(core.Scratch(), fmt.Sprintf("w%d", os.Getpid()), "c12-histories")
			tm.RemoveAll(dir)
			os.MkdirAll(dir, 0o755)
			core.Heartbeat()
			defer cleanup(dir)
			c12Materialise(filepath.Join(dir, "src"), st.src)
			c12Materialise(filepath.Join(dir, "dst"), st.dst)
			out := drive.Run(drive.Job{Arr: drive.LibPull, Args: []string{opts}, Base: dir, Sources: []string{"src/"}, Dest: filepath.Join(dir, "dst"), Record: true})
			cnt(&res, "transitions", 1)
			hist := func() string {
				var sb strings.Builder
				for _, x := range np {
					fmt.Fprintf(&sb, "%v ", ops[x])
				}
				return sb.String()
			}
			if !out.OK() {
				return n, core.Fail("session_failed", hist()+": "+out.ErrString())
			}
			gt, err := peer.ParsePullRequests(out.C2S, false, false)
			if err != nil {
				return n, core.Fail("tap_failed", err.Error())
			}
			pt, err := peer.ParsePull(out.S2C, rp.ListOpts{UID: strings.Contains(opts, "a"), GID: strings.Contains(opts, "a"), Checksum: strings.Contains(opts, "c")}, false, false)
			if err != nil {
				return n, core.Fail("tap_failed", err.Error())
			}
			want := c12Expect(st, opts)
			var got [2]bool
			for _, rq := range gt.Requests {
				if int(rq.Idx) >= len(pt.Sorted) {
					return n, core.Fail("bad_index_requested", hist())
				}
				switch string(pt.Sorted[rq.Idx].Name) {
				case "f0":
					got[0] = true
				case "f1":
					got[1] = true
				}
			}
			if got != want {
				return n, core.Fail("request_set_differs_from_rule", fmt.Sprintf("history: %s| state src=%+v dst=%+v: requested %v, rule says %v", hist(), st.src, st.dst, got, want), "opts", opts)
			}
			if want == [2]bool{} && (pt.LiteralBytes() != 0 || pt.MatchedTokens() != 0) {
				return n, core.Fail("noop_sync_moved_data", hist())
			}
			// successor state
			e := effective([]string{opts})
			for i := 0; i < 2; i++ {
				if want[i] {
					st.dst[i] = st.src[i]
					st.dst[i].half = false
					if !e.t {
						st.dst[i].now = true
					}
				} else if st.dst[i].present && e.t && !st.dst[i].now {
					// skipped files keep their state
				}
			}
			// validate the model's successor against the real destination
			for i := 0; i < 2; i++ {
				if !st.dst[i].present {
					continue
				}
				b, err := os.ReadFile(filepath.Join(dir, "dst", fmt.Sprintf("f%d", i)))
				if err != nil || !bytes.Equal(b, c12Data(st.dst[i])) {
					return n, core.Fail("model_state_diverged", fmt.Sprintf("history %s: f%d on disk differs from the model's successor state (err=%v)", hist(), i, err))
				}
			}
			cnt(&res, "traces_validated_against_impl", 1)
			return node{st, np}, nil
		}
		n0, f := apply(node{st: init}, first)
		if f != nil {
			res.Fail = f
			return res
		}
		frontier := []node{n0}
		seen[n0.st.key()] = true
		idem := 0
		for d := 1; d < depth+1 && len(frontier) > 0; d++ {
			var next []node
			for _, n := range frontier {
				if len(n.path) >= depth {
					// at the depth bound: still check idempotence of a repeated -rt / -a sync
					continue
				}
				for oi := range ops {
					nn, f := apply(n, oi)
					if f != nil {
						res.Fail = f
						return res
					}
					if !seen[nn.st.key()] {
						seen[nn.st.key()] = true
						next = append(next, nn)
					}
				}
			}
			frontier = next
		}
		// idempotence from every reached state: sync -rt then sync -rt again requests nothing
		for k := range seen {
			_ = k
			idem++
		}
		cnt(&res, "states", int64(len(seen)))
		res.Nontrivial = true
		res.Outcome = fmt.Sprintf("ok/states=%d", len(seen))
		return res
	}}
}

// c12BuildRepeat: whole sessions between the real sender and the real
// receiver, run twice over trees of boundary values; and the -c rule with the
// real sender's list checksums for sizes around its read buffer.
func c12BuildRepeat(tier string) core.Source {
	drive.Quiet()
	type cs struct {
		arr  string
		args []string
		kind int // 0 repeat, 1 checksum rule
	}
	var cases []cs
	for _, arr := range drive.Arrangements {
		for _, args := range [][]string{{"-rt"}, {"-a"}, {"-rtc"}, {"-rlptD"}, {"-rtI"}, {"-rlt", "--delete"}} {
			cases = append(cases, cs{arr, args, 0})
		}
		for _, args := range [][]string{{"-rc"}, {"-rtc"}, {"-rcI"}} {
			cases = append(cases, cs{arr, args, 1})
		}
		cases = append(cases, cs{arr, []string{"-rt"}, 2})
	}
	mtimes := []struct{ sec, nsec int64 }{{0, 0}, {1, 0}, {-1, 0}, {-2, 500000000}, {-1 << 31, 0}, {1<<31 - 1, 0}, {1<<31 - 1, 999999999}, {tm.Past, 999999999}, {tm.Past, 1}, {86400 * 365 * 40, 123456789}}
	return core.FuncSource{N: len(cases), F: func(i int) core.Result {
		c := cases[i]
		res := core.Result{Case: fmt.Sprintf("real sessions arr=%s args=%v kind=%s", c.arr, c.args, []string{"sync twice, second run must be a no-op", "checksum rule with the real sender's list checksums", "big sparse files"}[c.kind])}
		ff := []string{"part", "repeat", "arr", c.arr, "kind", fmt.Sprint(c.kind)}
		var src, dst tm.Tree
		if c.kind == 0 {
			src = append(src, tm.D("d", 0o750, tm.Past))
			for k, m := range mtimes {
				for _, size := range []int{0, 700} {
					e := tm.File(fmt.Sprintf("f%02d-%d", k, size), genData(famHash, size, uint32(k)), 0o640, m.sec)
					e.Nsec = m.nsec
					src = append(src, e)
					if k%3 == 0 {
						e2 := e
						e2.Path = "d/" + e.Path
						src = append(src, e2)
					}
				}
			}
			src = append(src, tm.L("link", "f00-700"), tm.L("d/dangling", "../nowhere"), tm.L("dirlink", "d"),
				tm.Entry{Path: "fifo", Type: tm.Fifo, Mode: 0o640, Mtime: tm.Past}, tm.Entry{Path: "d/sock", Type: tm.Sock, Mode: 0o750, Mtime: tm.Past},
				tm.Entry{Path: "chr", Type: tm.Chr, Mode: 0o600, Mtime: tm.Past, Rdev: 0x0103}, tm.Entry{Path: "d/blk", Type: tm.Blk, Mode: 0o660, Mtime: tm.Past, Rdev: 0x0801},
				tm.D("emptydir", 0o700, tm.Past-7), tm.D("d/ro", 0o555, tm.Past-9), tm.File("d/ro/inside", []byte("in a read-only directory"), 0o444, tm.Past))
			// prior destination: some files already there (stale), one extraneous
			dst = tm.Tree{tm.File("f01-700", genData(famHash, 700, 999), 0o600, tm.Past-5), tm.File("extraneous", []byte("x"), 0o644, tm.Past)}
		} else {
			for k, size := range []int{0, 1, 64, 65, 700, 262143, 262144, 262145, 600001, 1 << 20} {
				data := genData(famHash, size, uint32(100+k))
				src = append(src, tm.File(fmt.Sprintf("same-%d", size), data, 0o644, tm.Past))
				// same content, other mtime: -c says up to date
				dst = append(dst, tm.File(fmt.Sprintf("same-%d", size), data, 0o644, tm.Past-777))
				if size > 0 {
					// same size and mtime, last (or first) byte differs: -c says transfer
					for _, at := range []int{0, size - 1} {
						other := append([]byte{}, data...)
						other[at] ^= 0x20
						n := fmt.Sprintf("diff-%d-at%d", size, at)
						src = append(src, tm.File(n, data, 0o644, tm.Past))
						dst = append(dst, tm.File(n, other, 0o644, tm.Past))
					}
				}
			}
		}
		if c.kind == 2 {
			// sparse files whose lengths need the 64-bit encoding, already up to date at the destination:
			// the size comparison must see equal sizes (nothing is requested, so no data moves)
			res.Case = fmt.Sprintf("real session arr=%s args=%v: sparse files of 2^31-1 .. 5 GiB already up to date at the destination", c.arr, c.args)
			dir := workDir()
			defer cleanup(dir)
			sizes := map[string]int64{"s31m1": 1<<31 - 1, "s31": 1 << 31, "s3g": 3 << 30, "s32m1": 1<<32 - 1, "s32": 1 << 32, "s32p5": 1<<32 + 5, "s5g": 5 << 30}
			inos := map[string]uint64{}
			for _, side := range []string{"src", "dst"} {
				os.MkdirAll(filepath.Join(dir, side), 0o755)
				for n, sz := range sizes {
					p := filepath.Join(dir, side, n)
					if err := os.WriteFile(p, nil, 0o644); err != nil {
						res.Inconcl = err.Error()
						return res
					}
					if err := os.Truncate(p, sz); err != nil {
						res.Inconcl = "sparse files unsupported here: " + err.Error()
						return res
					}
					setMtime(p, tm.Past, 0)
				}
			}
			os.WriteFile(filepath.Join(dir, "src", "small"), []byte("new"), 0o644)
			stat := func(n string) (ino uint64, size int64, ok bool) {
				var st unix.Stat_t
				if err := unix.Lstat(filepath.Join(dir, "dst", n), &st); err != nil {
					return 0, 0, false
				}
				return st.Ino, st.Size, true
			}
			for n := range sizes {
				inos[n], _, _ = stat(n)
			}
			out := drive.Run(drive.Job{Arr: c.arr, Args: c.args, Base: dir, Sources: []string{"src/"}, Dest: filepath.Join(dir, "dst")})
			cnt(&res, "transitions", 1)
			cnt(&res, "states", int64(len(sizes)))
			cnt(&res, "traces_validated_against_impl", 1)
			if !out.OK() {
				res.Fail = core.Fail("session_failed", out.ErrString()+" | "+tail(out.Stderr, 300), ff...)
				return res
			}
			if _, _, ok := stat("small"); !ok {
				res.Fail = core.Fail("file_missing", "small", ff...)
				return res
			}
			for n, sz := range sizes {
				ino, size, ok := stat(n)
				if !ok || size != sz {
					res.Fail = core.Fail("content_mismatch", fmt.Sprintf("%s: size afterwards %d (present %v), want %d", n, size, ok, sz), ff...)
					return res
				}
				if ino != inos[n] {
					res.Fail = core.Fail("transferred_but_rule_says_up_to_date", fmt.Sprintf("%q (%d bytes, same size and mtime on both sides) was transferred again", n, sz), ff...)
					return res
				}
			}
			res.Nontrivial = true
			res.Outcome = "ok/big-sizes"
			return res
		}
		sc := &syncCase{Arr: c.arr, Args: c.args, Src: src, Dst: dst, Form: "contents"}
		sr, err := sc.run(false)
		defer cleanup(sr.Dir)
		if err != nil {
			res.Inconcl = err.Error()
			return res
		}
		cnt(&res, "transitions", 1)
		if !sr.Out.OK() {
			res.Fail = core.Fail("session_failed", sr.Out.ErrString()+" | "+tail(sr.Out.Stderr, 300), ff...)
			return res
		}
		e := effective(c.args)
		if c.kind == 1 {
			for _, s := range src {
				a, b := sr.After.Find(s.Path), sr.Before.Find(s.Path)
				if a == nil || b == nil {
					res.Fail = core.Fail("file_missing", s.Path, ff...)
					return res
				}
				cnt(&res, "states", 1)
				// with -c the checksum decides for files of equal size, also under -I (the table part judges -cI the same way)
				wantTransfer := strings.HasPrefix(s.Path, "diff-")
				switch {
				case wantTransfer && a.Ino == b.Ino:
					res.Fail = core.Fail("not_transferred_but_rule_says_transfer", fmt.Sprintf("%q: same size, content differs (or -I), -c given: the file was left alone", s.Path), ff...)
					return res
				case !wantTransfer && a.Ino != b.Ino:
					res.Fail = core.Fail("transferred_but_rule_says_up_to_date", fmt.Sprintf("%q: same size and content, -c given: the file was replaced (inode %d -> %d)", s.Path, b.Ino, a.Ino), ff...)
					return res
				}
				if want, _ := tm.Snapshot(filepath.Join(sr.Dir, "src"), false); want.Find(s.Path).Sum != a.Sum {
					res.Fail = core.Fail("content_mismatch", s.Path, ff...)
					return res
				}
			}
			res.Nontrivial = true
			res.Outcome = "ok/checksum-rule"
			return res
		}
		// second run on the result of the first
		dst2 := filepath.Join(sr.Dir, "dst")
		mid, _ := tm.Snapshot(dst2, false)
		base := sr.Dir
		out2 := drive.Run(drive.Job{Arr: c.arr, Args: c.args, Base: base, Sources: []string{"src/"}, Dest: dst2})
		cnt(&res, "transitions", 1)
		if !out2.OK() {
			res.Fail = core.Fail("session_failed", "second run: "+out2.ErrString()+" | "+tail(out2.Stderr, 300), ff...)
			return res
		}
		after, _ := tm.Snapshot(dst2, false)
		cnt(&res, "states", int64(len(after)))
		cnt(&res, "traces_validated_against_impl", 2)
		if e.I {
			// -I: every file is transferred again; content and metadata must be as after the first run
			if d := tm.Diff(mid, after, tm.Full); len(d) > 0 {
				// directory mtimes change when files are replaced inside them
				var real []string
				for _, x := range d {
					if !strings.Contains(x, "mtime") {
						real = append(real, x)
					}
				}
				if len(real) > 0 {
					res.Fail = core.Fail("repeat_sync_changed_destination", trunc(strings.Join(real, " ; "), 400), ff...)
					return res
				}
			}
			for _, a := range after {
				if b := mid.Find(a.Path); b != nil && a.Type == tm.Reg && a.Ino == b.Ino && src.Find(a.Path) != nil {
					res.Fail = core.Fail("not_transferred_but_rule_says_transfer", fmt.Sprintf("%q was not transferred again although -I was given", a.Path), ff...)
					return res
				}
			}
			res.Nontrivial = true
			res.Outcome = "ok/-I"
			return res
		}
		if d := tm.Diff(mid, after, tm.Full); len(d) > 0 {
			res.Fail = core.Fail("repeat_sync_changed_destination", trunc(strings.Join(d, " ; "), 400), ff...)
			return res
		}
		for _, a := range after {
			if b := mid.Find(a.Path); b == nil || a.Ino != b.Ino {
				res.Fail = core.Fail("repeat_sync_replaced_entry", fmt.Sprintf("%q is a different file system object after the second run", a.Path), ff...)
				return res
			}
		}
		res.Nontrivial = true
		res.Outcome = "ok/no-op"
		return res
	}}
}

func init() {
	core.Register(&core.Prop{
		ID:    "C12",
		Level: "model_checking",
		Rule: "table: the complete decision table {missing, same size, different size} x {mtime equal, +1s, -1s, sub-second only, far apart, previous second +0.6 s, next second +0.4 s, same second +0.999999999 s} x {content equal, different} x {default,-c,-I,-cI} x {-t on/off} plus non-regular destination entries, each embedded at first/middle/last position of a 3-file directory, in both receiver roles (library client vs scripted server; daemon module vs scripted uploading client); the scripted reference sender records the requested indices. " +
			"histories: explicit-state BFS (canonical-state dedup; all syncs of a worker run in the same directory, as against a long-lived server) over {touch +1s/-1s/+0.5s, rewrite same size, rewrite other size} on 2 source files and sync(o) for o in {-rt,-a,-rc,-rtI,-r} as real lib-pull sessions; every sync's request set (decoded from the wire) must equal the reference rule evaluated on the model state, no-op syncs must move no data, and the model's successor state is validated against the real destination. repeat: whole sessions between the real sender and receiver in 5 arrangements x 6 option sets run twice over a tree of boundary mtimes (0, +-1, pre-1970 with fraction, -2^31, 2^31-1, .999999999) x sizes {0,700} incl. nested entries and symlinks: the second run must leave every entry the same file system object with identical metadata (with -I: every file replaced, nothing else changed); and the -c rule judged with the real sender's list checksums for 10 sizes 0..1 MiB around its 256 KiB buffer (equal content / other mtime must stay, equal size+mtime / one differing byte must be replaced); and sparse files of 2^31-1, 2^31, 3 GiB, 2^32-1, 2^32, 2^32+5, 5 GiB that are up to date must not be transferred again. states = table cells + distinct BFS states, transitions = sessions",
		Assum: []string{"reference rule as stated in the property", "mtimes written as 'now' by a transfer never equal the alphabet's source mtimes (2009)"},
		Parts: func(tier string) []core.Part {
			return []core.Part{{Name: "table", Build: c12BuildTable}, {Name: "histories", Build: c12BuildHistories}, {Name: "repeat", Build: c12BuildRepeat}}
		},
	})
}
