package props

import (
	"fmt"
	"os"
	"path/filepath"
	"sort"
	"strings"

	"github.com/gokrazy/rsync/rsyncd"
	"github.com/gokrazy/rsync/verifharness/core"
	"github.com/gokrazy/rsync/verifharness/drive"
	"github.com/gokrazy/rsync/verifharness/peer"
	rp "github.com/gokrazy/rsync/verifharness/refproto"
	tm "github.com/gokrazy/rsync/verifharness/treemodel"
)

// C09 — --delete removes exactly the extraneous entries and nothing else.

func c09Src() tm.Tree {
	f := func(p string) tm.Entry { return tm.File(p, []byte("src:"+p), 0o644, tm.Past) }
	// "report-2024", "lib64" and "d/data.bak" have extraneous candidates that are strict prefixes of them
	// "d-old" and "d.bak" sort between "d" and "d/a" in the file list but come after d's contents in a directory walk
	return tm.Tree{f("a"), f("c"), f("e"), tm.D("d", 0o755, tm.Past), f("d/a"), f("d/c"), f("d/data.bak"), f("lib64"), f("report-2024"),
		f("d-old"), tm.D("d.bak", 0o755, tm.Past), f("d.bak/k")}
}

// extraneous candidates, in every sort position relative to the listed names
var c09TopExtra = []string{"0", "b", "f", "z", "report", "lib"}
var c09SubExtra = []string{"d/0", "d/b", "d/z", "d/data", "d.bak/z"}

func c09Extra(name string, kind byte) tm.Tree {
	switch kind {
	case tm.Dir:
		return tm.Tree{tm.D(name, 0o755, tm.Past), tm.File(name+"/y", []byte("extraneous"), 0o644, tm.Past), tm.D(name+"/sub", 0o700, tm.Past), tm.File(name+"/sub/b", []byte("deep"), 0o600, tm.Past)}
	case tm.Link:
		return tm.Tree{tm.L(name, "../canary/secret")}
	case tm.Fifo:
		return tm.Tree{{Path: name, Type: tm.Fifo, Mode: 0o644, Mtime: tm.Past}}
	}
	return tm.Tree{tm.File(name, []byte("extraneous:"+name), 0o644, tm.Past)}
}

type c09Case struct {
	top, sub int // bitmasks over the candidate lists
	kinds    int // rotation of entry kinds for extraneous entries
	del      bool
	ioerr    bool
	arr      string
	excl     string // "", "b", "z"
	nonrec   bool   // -d instead of -r: only the top directory is transferred
	dirform  bool   // source named without trailing slash: dest/src/ is the transferred directory
}

func (c c09Case) String() string {
	return fmt.Sprintf("top-extraneous=%06b sub-extraneous=%05b kinds=%d delete=%v ioerr=%v arr=%s exclude=%q nonrecursive=%v source-without-slash=%v", c.top, c.sub, c.kinds, c.del, c.ioerr, c.arr, c.excl, c.nonrec, c.dirform)
}

func bits(n int) int {
	c := 0
	for ; n > 0; n &= n - 1 {
		c++
	}
	return c
}

func c09Dst(c c09Case) tm.Tree {
	// listed entries are present: one up to date, one stale, one missing
	src := c09Src()
	dst := tm.Tree{*src.Find("a"), tm.File("c", []byte("stale"), 0o644, tm.Past-50), tm.D("d", 0o755, tm.Past), *src.Find("d/a"),
		*src.Find("d-old"), *src.Find("d.bak"), *src.Find("d.bak/k")}
	kindsTop := []byte{tm.Reg, tm.Reg, tm.Reg, tm.Dir, tm.Reg, tm.Dir}
	kindsSub := []byte{tm.Reg, tm.Reg, tm.Reg, tm.Reg, tm.Reg}
	switch c.kinds {
	case 1:
		kindsTop = []byte{tm.Dir, tm.Link, tm.Fifo, tm.Reg, tm.Dir, tm.Reg}
		kindsSub = []byte{tm.Link, tm.Dir, tm.Fifo, tm.Dir, tm.Dir}
	case 2:
		kindsTop = []byte{tm.Link, tm.Dir, tm.Dir, tm.Fifo, tm.Link, tm.Fifo}
		kindsSub = []byte{tm.Dir, tm.Fifo, tm.Link, tm.Link, tm.Fifo}
	}
	for i, n := range c09TopExtra {
		if c.top&(1<<i) != 0 {
			dst = append(dst, c09Extra(n, kindsTop[i])...)
		}
	}
	for i, n := range c09SubExtra {
		if c.sub&(1<<i) != 0 {
			dst = append(dst, c09Extra(n, kindsSub[i])...)
		}
	}
	return dst
}

// c09Expected: the acceptable entry sets after a successful run. Entries
// below an extraneous directory that is not itself protected are ambiguous in
// the property's wording: rsync keeps a protected entry together with its
// ancestors, removing the directory wholesale is the other consistent
// reading. Both are accepted: wantA (subtree removed), wantB (protected
// entries and their ancestors kept).
func c09Expected(c c09Case, before tm.Tree, effectiveDelete bool) (wantA, wantB map[string]bool) {
	wantA, wantB = map[string]bool{}, map[string]bool{}
	listed := map[string]bool{}
	for _, e := range c09Src() {
		if c.nonrec && strings.Contains(e.Path, "/") {
			continue // below a sub-directory: not transferred
		}
		listed[e.Path] = true
		wantA[e.Path], wantB[e.Path] = true, true
	}
	if c.nonrec {
		// the contents of listed sub-directories are not transferred: whatever is there stays as it is
		for _, e := range before {
			if i := strings.IndexByte(e.Path, '/'); i > 0 && listed[e.Path[:i]] {
				listed[e.Path] = true
				wantA[e.Path], wantB[e.Path] = true, true
			}
		}
	}
	named := func(p string) bool { // p or an ancestor is named by the exclude rule
		if c.excl == "" {
			return false
		}
		pat, dirOnly := strings.TrimSuffix(c.excl, "/"), strings.HasSuffix(c.excl, "/")
		// rules are matched against the names as they travel: relative to the transfer root, which is the
		// parent of the source directory when the source is named without trailing slash
		prefix := ""
		if c.dirform {
			prefix = "src/"
		}
		parts := strings.Split(p, "/")
		for i := range parts {
			q := strings.Join(parts[:i+1], "/")
			wire := prefix + q
			match := false
			switch {
			case !strings.Contains(pat, "/"):
				match = parts[i] == pat
			case strings.HasPrefix(pat, "/"):
				match = wire == pat[1:]
			default:
				match = wire == pat || strings.HasSuffix(wire, "/"+pat)
			}
			if !match {
				continue
			}
			// a rule with a trailing slash names directories only
			if e := before.Find(q); !dirOnly || (e != nil && e.Type == tm.Dir) {
				return true
			}
		}
		return false
	}
	for _, e := range before {
		if listed[e.Path] {
			continue
		}
		if !effectiveDelete {
			wantA[e.Path], wantB[e.Path] = true, true
			continue
		}
		if !named(e.Path) {
			continue
		}
		// B: protected entry stays, with all its ancestors
		wantB[e.Path] = true
		parts := strings.Split(e.Path, "/")
		for i := 1; i < len(parts); i++ {
			wantB[strings.Join(parts[:i], "/")] = true
		}
		// A: stays only if no unprotected extraneous directory above it is removed wholesale
		removedAbove := false
		for i := 1; i < len(parts); i++ {
			anc := strings.Join(parts[:i], "/")
			if !listed[anc] && !named(anc) {
				removedAbove = true
			}
		}
		if !removedAbove {
			wantA[e.Path] = true
		}
	}
	return
}

func c09Judge(c c09Case, before, after tm.Tree, canaryBefore, canaryAfter tm.Tree) *core.Failure {
	ff := []string{"arr", c.arr, "delete", fmt.Sprint(c.del), "ioerr", fmt.Sprint(c.ioerr), "exclude", fmt.Sprint(c.excl != "")}
	if d := tm.Diff(canaryBefore, canaryAfter, tm.Full); len(d) > 0 {
		return core.Fail("outside_destination_touched", strings.Join(d, " ; "), ff...)
	}
	wantA, wantB := c09Expected(c, before, c.del && !c.ioerr)
	got := map[string]bool{}
	for _, e := range after {
		got[e.Path] = true
	}
	same := func(w map[string]bool) bool {
		if len(w) != len(got) {
			return false
		}
		for p := range w {
			if !got[p] {
				return false
			}
		}
		return true
	}
	if same(wantA) || same(wantB) {
		// "an entry that is present in the source is never deleted": a listed directory, or a listed
		// file that the update rule leaves alone, must still be the same file system object
		for _, s := range c09Src() {
			if c.nonrec && strings.Contains(s.Path, "/") {
				continue
			}
			b, a := before.Find(s.Path), after.Find(s.Path)
			if b == nil || a == nil || b.Type != a.Type || b.Type != s.Type {
				continue
			}
			if b.Type == tm.Reg && (b.Size != int64(len(s.Data)) || b.Mtime != s.Mtime) {
				continue // legitimately replaced
			}
			if b.Type != tm.Reg && b.Type != tm.Dir {
				continue
			}
			if a.Ino != b.Ino {
				return core.Fail("listed_entry_deleted_and_recreated", fmt.Sprintf("%s: %q is in the source and was up to date, but afterwards it is a different file system object (inode %d -> %d)", c, s.Path, b.Ino, a.Ino), ff...)
			}
		}
		return nil
	}
	want := wantB
	var missing, survived []string
	for p := range want {
		if !got[p] {
			missing = append(missing, p)
		}
	}
	for p := range got {
		if !want[p] {
			survived = append(survived, p)
		}
	}
	sort.Strings(missing)
	sort.Strings(survived)
	if len(missing) > 0 {
		listed := false
		for _, m := range missing {
			if c09Src().Find(m) != nil {
				listed = true
			}
		}
		sym := "entry_wrongly_removed"
		switch {
		case listed:
			sym = "listed_entry_missing"
		case !c.del:
			sym = "removed_without_delete"
		case c.ioerr:
			sym = "removed_despite_io_error"
		case c.excl != "":
			sym = "protected_entry_removed"
		}
		return core.Fail(sym, fmt.Sprintf("%s: missing afterwards: %v", c, missing), ff...)
	}
	if len(survived) > 0 {
		return core.Fail("extraneous_survived", fmt.Sprintf("%s: still present: %v", c, survived), append(ff, "n_extraneous_top", fmt.Sprint(min(bits(c.top), 2)), "n_extraneous_sub", fmt.Sprint(min(bits(c.sub), 2)))...)
	}
	return nil
}

func c09Run(c c09Case) core.Result {
	res := core.Result{Case: c.String()}
	dir := workDir()
	defer cleanup(dir)
	dstT := c09Dst(c)
	canary := tm.Tree{tm.File("secret", []byte("do not touch"), 0o600, tm.Past), tm.D("dir", 0o755, tm.Past), tm.File("dir/x", []byte("x"), 0o644, tm.Past)}
	if err := canary.Materialise(filepath.Join(dir, "canary")); err != nil {
		res.Inconcl = err.Error()
		return res
	}
	if err := c09Src().Materialise(filepath.Join(dir, "src")); err != nil {
		res.Inconcl = err.Error()
		return res
	}
	dst := filepath.Join(dir, "dst")
	inner := dst // the transferred directory
	siblings := tm.Tree{tm.File("sibling-file", []byte("outside the transferred directory"), 0o644, tm.Past), tm.D("sibling-dir", 0o755, tm.Past), tm.File("sibling-dir/x", []byte("x"), 0o644, tm.Past), tm.File("a", []byte("same name as a listed file, one level up"), 0o644, tm.Past)}
	if c.dirform {
		inner = filepath.Join(dst, "src")
		if err := siblings.Materialise(dst); err != nil {
			res.Inconcl = err.Error()
			return res
		}
	}
	if err := dstT.Materialise(inner); err != nil {
		res.Inconcl = err.Error()
		return res
	}
	before, _ := tm.Snapshot(inner, false)
	cb, _ := tm.Snapshot(filepath.Join(dir, "canary"), false)
	args := []string{"-rlt"}
	if c.nonrec {
		args = []string{"-dlt"}
	}
	if c.del {
		args = append(args, "--delete")
	}
	if c.excl != "" {
		args = append(args, "--exclude="+c.excl)
	}
	sources := []string{"src/"}
	if c.dirform {
		sources = []string{"src"}
	}
	if c.ioerr {
		// a source argument that does not exist raises the sender's I/O error flag: as the last
		// argument, or (every other case) as the first one, followed by an argument that lists cleanly
		if (c.top+c.sub)%2 == 0 {
			sources = append(sources, "vanished/")
		} else {
			sources = append([]string{"vanished/"}, sources...)
		}
	}
	out := drive.Run(drive.Job{Arr: c.arr, Args: args, Base: dir, Sources: sources, Dest: dst})
	cnt(&res, "transitions", 1)
	cnt(&res, "states", int64(len(before)))
	cnt(&res, "traces_validated_against_impl", 1)
	if !out.OK() {
		res.Outcome = "error"
		res.Fail = core.Fail("session_failed", out.ErrString()+" | "+tail(out.Stderr, 300), "arr", c.arr, "ioerr", fmt.Sprint(c.ioerr))
		return res
	}
	after, _ := tm.Snapshot(inner, false)
	ca, _ := tm.Snapshot(filepath.Join(dir, "canary"), false)
	if c.dirform {
		all, _ := tm.Snapshot(dst, false)
		var outside tm.Tree
		for _, e := range all {
			if e.Path != "src" && !strings.HasPrefix(e.Path, "src/") {
				outside = append(outside, e)
			}
		}
		if d := tm.Diff(siblings, outside, tm.Fields{}); len(d) > 0 {
			res.Fail = core.Fail("deleted_outside_transferred_directory", fmt.Sprintf("%s: entries next to the transferred directory changed: %s", c, trunc(strings.Join(d, " ; "), 400)), "arr", c.arr, "delete", fmt.Sprint(c.del))
			return res
		}
	}
	if f := c09Judge(c, before, after, cb, ca); f != nil {
		res.Fail = f
		return res
	}
	res.Nontrivial = c.del && !c.ioerr && (c.top|c.sub) != 0
	res.Outcome = fmt.Sprintf("ok/deleting=%v", res.Nontrivial)
	return res
}

func c09BuildReal(tier string) core.Source {
	drive.Quiet()
	var cases []c09Case
	kindsN := 1
	if tier == "thorough" {
		kindsN = 3
	}
	for _, arr := range drive.Arrangements {
		for kinds := 0; kinds < kindsN; kinds++ {
			for top := 0; top < 64; top++ {
				if bits(top) > 3 {
					continue
				}
				for sub := 0; sub < 1<<len(c09SubExtra); sub++ {
					if bits(sub) > 3 {
						continue
					}
					if tier != "thorough" && bits(top)+bits(sub) > 4 {
						continue
					}
					for _, del := range []bool{true, false} {
						for _, excl := range []string{"", "b", "z", "b/", "z/", "/b", "d/b", "/d/z", "/src/b", "src/d/b", "/src/d/z"} {
							if strings.HasSuffix(excl, "/") && tier != "thorough" && (top+sub)%2 != 0 {
								continue
							}
							shaped := strings.Contains(strings.TrimSuffix(excl, "/"), "/") // anchored and path rules
							if shaped && tier != "thorough" && (top+sub)%3 != 0 {
								continue
							}
							if !del && excl != "" {
								continue
							}
							for _, ioerr := range []bool{false, true} {
								if ioerr && arr == drive.DaemonPull {
									continue // the library daemon client takes one source path
								}
								if ioerr && (top+sub)%3 != 0 && tier != "thorough" {
									continue
								}
								cases = append(cases, c09Case{top: top, sub: sub, kinds: kinds, del: del, ioerr: ioerr, arr: arr, excl: excl})
								if !ioerr && !strings.HasSuffix(excl, "/") && (tier == "thorough" || (top+3*sub)%5 == 1 || (shaped && (top+sub)%3 == 0)) {
									cases = append(cases, c09Case{top: top, sub: sub, kinds: kinds, del: del, arr: arr, excl: excl, dirform: true})
								}
								if !ioerr && !strings.HasSuffix(excl, "/") && (tier == "thorough" || (top+2*sub)%5 == 0) {
									cases = append(cases, c09Case{top: top, sub: sub, kinds: kinds, del: del, arr: arr, excl: excl, nonrec: true})
								}
							}
						}
					}
				}
			}
		}
	}
	return core.FuncSource{N: len(cases), F: func(i int) core.Result { return c09Run(cases[i]) }}
}

// c09BuildScripted: the I/O error flag set by a scripted reference sender, in
// both receiver roles.
func c09BuildScripted(tier string) core.Source {
	drive.Quiet()
	var cases []c09Case
	for role := 0; role < 2; role++ {
		for top := 0; top < 64; top += 5 {
			for sub := 0; sub < 16; sub += 3 {
				for _, ioerr := range []bool{true, false} {
					cases = append(cases, c09Case{top: top, sub: sub, del: true, ioerr: ioerr, arr: []string{"scripted-server", "scripted-client"}[role]})
				}
			}
		}
	}
	return core.FuncSource{N: len(cases), F: func(i int) core.Result {
		c := cases[i]
		res := core.Result{Case: c.String()}
		dir := workDir()
		defer cleanup(dir)
		dst := filepath.Join(dir, "dst")
		if err := c09Dst(c).Materialise(dst); err != nil {
			res.Inconcl = err.Error()
			return res
		}
		os.MkdirAll(filepath.Join(dir, "canary"), 0o755)
		before, _ := tm.Snapshot(dst, false)
		list := &rp.FList{IOError: 0}
		if c.ioerr {
			list.IOError = 1
		}
		list.Entries = append(list.Entries, rp.FEntry{Name: []byte("."), Len: 4096, Mtime: tm.Past, Mode: rp.SIFDIR | 0o755, TopDir: true})
		data := map[int32][]byte{}
		for _, e := range c09Src() {
			fe := rp.FEntry{Name: []byte(e.Path), Len: int64(len(e.Data)), Mtime: tm.Past, Mode: modeBits(e)}
			list.Entries = append(list.Entries, fe)
		}
		for k, e := range rp.SortedIndex(list.Entries) {
			if s := c09Src().Find(string(e.Name)); s != nil {
				data[int32(k)] = s.Data
			}
		}
		script := &peer.SenderScript{List: list, Seed: 9, Data: data}
		var e1, e2 error
		if c.arr == "scripted-server" {
			e1, _, _, e2, _ = peer.ClientVsScriptedServer([]string{"-rt", "--delete"}, dst, script)
		} else {
			e1, _, _, e2, _ = peer.DaemonVsScriptedClient([]rsyncd.Module{{Name: "w", Path: dst, Writable: true}}, "w", []string{"--server", "-rt", "--delete", ".", "w/"}, script, true)
		}
		cnt(&res, "transitions", 1)
		cnt(&res, "states", int64(len(before)))
		cnt(&res, "traces_validated_against_impl", 1)
		if e1 != nil || e2 != nil {
			res.Fail = core.Fail("session_failed", fmt.Sprintf("%v / %v", e1, e2), "arr", c.arr)
			return res
		}
		after, _ := tm.Snapshot(dst, false)
		if f := c09Judge(c, before, after, nil, nil); f != nil {
			res.Fail = f
			return res
		}
		res.Nontrivial = !c.ioerr && (c.top|c.sub) != 0
		res.Outcome = fmt.Sprintf("ok/deleting=%v", res.Nontrivial)
		return res
	}}
}

func init() {
	core.Register(&core.Prop{
		ID:    "C09",
		Level: "model_checking",
		Rule: "real: source {a,c,e,d/,d/a,d/c,d/data.bak,lib64,report-2024}; destination holds listed entries (up to date, stale, missing) plus every subset of <=3 extraneous top-level entries {0,b,f,z/,report,lib/} (every sort position; names that are strict prefixes of listed names report-2024 and lib64; z and lib are non-empty directories) x every subset of <=3 extraneous entries {d/0,d/b,d/z,d/data} in the subdirectory (thorough: files, non-empty directories, symlinks, fifos in rotation) x --delete on/off x exclude {none,b,z} x sender I/O error (a vanished source argument) x 5 arrangements; scripted: the I/O-error flag set by a scripted reference sender in both receiver roles. " +
			"oracle: after success the destination entry set equals listed + protected-by-exclude when --delete and no I/O error, nothing listed is removed, nothing at all is removed without --delete or with the I/O-error flag, a canary directory next to the destination is untouched. states = destination entries judged, transitions = sessions",
		Assum: []string{"recursive sync of a directory's contents (src/), as the property states"},
		Parts: func(tier string) []core.Part {
			return []core.Part{{Name: "real", Build: c09BuildReal}, {Name: "scripted", Build: c09BuildScripted}}
		},
	})
}
