package props

import (
	"fmt"
	"strings"

	"github.com/gokrazy/rsync/verifharness/core"
	"github.com/gokrazy/rsync/verifharness/drive"
	"github.com/gokrazy/rsync/verifharness/peer"
	rp "github.com/gokrazy/rsync/verifharness/refproto"
	tm "github.com/gokrazy/rsync/verifharness/treemodel"
)

// C10 — a dry run changes nothing.

var c10Types = []byte{tm.Reg, tm.Dir, tm.Link, tm.Fifo, tm.Sock, tm.Chr, tm.Blk}
var c10TypeNames = map[byte]string{tm.Reg: "reg", tm.Dir: "dir", tm.Link: "symlink", tm.Fifo: "fifo", tm.Sock: "sock", tm.Chr: "chr", tm.Blk: "blk"}

func c10Entry(path string, typ byte, variant int) []tm.Entry {
	mt := int64(tm.Past + 10*int64(variant))
	switch typ {
	case tm.Reg:
		return []tm.Entry{tm.File(path, genData(famText, 900+variant, uint32(variant)), 0o640+uint32(variant), mt)}
	case tm.Dir:
		return []tm.Entry{tm.D(path, 0o750+uint32(variant), mt), tm.File(path+"/inner", []byte(fmt.Sprint("inner", variant)), 0o644, mt)}
	case tm.Link:
		return []tm.Entry{tm.L(path, fmt.Sprintf("target-%d", variant))}
	case tm.Fifo:
		return []tm.Entry{{Path: path, Type: tm.Fifo, Mode: 0o600 + uint32(variant), Mtime: mt}}
	case tm.Sock:
		return []tm.Entry{{Path: path, Type: tm.Sock, Mode: 0o700 + uint32(variant), Mtime: mt}}
	case tm.Chr:
		return []tm.Entry{{Path: path, Type: tm.Chr, Mode: 0o620 + uint32(variant), Mtime: mt, Rdev: uint64(0x0103 + variant)}}
	case tm.Blk:
		return []tm.Entry{{Path: path, Type: tm.Blk, Mode: 0o660 + uint32(variant), Mtime: mt, Rdev: uint64(0x0800 + variant)}}
	}
	return nil
}

// c10Trees: one source/destination pair containing every entry type in every
// situation {missing, different, same, wrong type at destination}.
func c10Trees() (src, dst tm.Tree) {
	for _, t := range c10Types {
		n := c10TypeNames[t]
		// missing at destination
		src = append(src, c10Entry("missing-"+n, t, 1)...)
		// different at destination (same type, other attributes/content)
		src = append(src, c10Entry("differ-"+n, t, 1)...)
		dst = append(dst, c10Entry("differ-"+n, t, 2)...)
		// same
		src = append(src, c10Entry("same-"+n, t, 1)...)
		dst = append(dst, c10Entry("same-"+n, t, 1)...)
		// wrong type at destination: next type in the cycle
		var other byte = tm.Reg
		if t == tm.Reg {
			other = tm.Link
		}
		src = append(src, c10Entry("wrongtype-"+n, t, 1)...)
		if other == tm.Dir {
			dst = append(dst, tm.D("wrongtype-"+n, 0o755, tm.Past))
		} else {
			dst = append(dst, c10Entry("wrongtype-"+n, other, 3)...)
		}
	}
	// names that sort between a directory and its contents ("dir" < "dir-2" < "dir.old" < "dir/inner"), next to
	// directories that are missing or have a non-directory in their place at the destination, and deeper levels below them
	src = append(src, tm.File("wrongtype-dir.old", []byte("sibling"), 0o644, tm.Past), tm.D("wrongtype-dir-2", 0o755, tm.Past), tm.File("wrongtype-dir-2/inner", []byte("i2"), 0o644, tm.Past),
		tm.File("missing-dir.old", []byte("sibling"), 0o644, tm.Past), tm.D("missing-dir-2", 0o755, tm.Past),
		tm.D("wrongtype-dir/sub", 0o755, tm.Past), tm.File("wrongtype-dir/sub/deep", []byte("deep"), 0o644, tm.Past), tm.File("wrongtype-dir/sub.x", []byte("sx"), 0o644, tm.Past),
		tm.D("missing-dir/sub", 0o755, tm.Past), tm.File("missing-dir/sub/deep", []byte("deep"), 0o644, tm.Past))
	// up to date by the quick check (same size and mtime) but other permissions / owner:
	// a real run adjusts them, a dry run must not
	m := c10Entry("meta-reg", tm.Reg, 1)[0]
	src = append(src, m)
	m.Mode, m.Uid, m.Gid = 0o600, 1, 2
	dst = append(dst, m)
	md := tm.D("meta-dir", 0o755, tm.Past)
	src = append(src, md)
	md.Mode, md.Uid, md.Mtime = 0o700, 3, tm.Past-5
	dst = append(dst, md)
	// extraneous entries for --delete
	dst = append(dst, tm.File("extraneous-file", []byte("x"), 0o644, tm.Past), tm.D("extraneous-dir", 0o755, tm.Past), tm.File("extraneous-dir/f", []byte("y"), 0o644, tm.Past), tm.L("extraneous-link", "nowhere"))
	// extraneous directories without owner write permission (a deleting run has to open them up first), nested
	dst = append(dst, tm.D("extraneous-ro", 0o555, tm.Past-3), tm.File("extraneous-ro/f", []byte("z"), 0o444, tm.Past), tm.D("extraneous-ro/inner", 0o500, tm.Past-4), tm.File("extraneous-ro/inner/g", []byte("w"), 0o400, tm.Past),
		tm.Entry{Path: "extraneous-fifo", Type: tm.Fifo, Mode: 0o600, Mtime: tm.Past}, tm.File("extraneous-000", []byte("q"), 0o000, tm.Past))
	return
}

func c10Check(sc *syncCase) core.Result {
	res := core.Result{Case: sc.String()}
	sr, err := sc.run(false)
	defer cleanup(sr.Dir)
	if err != nil {
		res.Inconcl = err.Error()
		return res
	}
	cnt(&res, "transitions", 1)
	cnt(&res, "states", int64(len(sr.Before)))
	cnt(&res, "traces_validated_against_impl", 1)
	ff := []string{"arr", sc.Arr}
	if !sr.Out.OK() {
		res.Outcome = "error"
		res.Fail = core.Fail("dry_run_failed", sr.Out.ErrString()+" | "+tail(sr.Out.Stderr, 300), ff...)
		return res
	}
	if d := tm.Diff(sr.Before, sr.After, tm.Full); len(d) > 0 {
		// classify by what changed for known-finding matching
		kind := map[string]bool{}
		for _, l := range d {
			f := strings.Fields(l)
			if len(f) >= 3 {
				kind[f[0]+f[1]] = true
			}
		}
		var ks []string
		for k := range kind {
			ks = append(ks, k)
		}
		res.Outcome = "changed"
		res.Fail = core.Fail("dry_run_changed_destination", fmt.Sprintf("%d differences, e.g. %s", len(d), trunc(strings.Join(d, " ; "), 600)), append(ff, "kinds", sortedJoin(ks))...)
		return res
	}
	// no file data on the wire
	if sc.Rec {
		e := effective(sc.Args)
		lo := rp.ListOpts{UID: e.o, GID: e.g, Devices: e.devices, Specials: e.specials, Links: e.l, Checksum: e.c}
		var lit int64
		var n int
		switch sc.Arr {
		case drive.DaemonPull, drive.LibPull:
			tap, err := peer.ParsePull(sr.Out.S2C, lo, sc.Arr == drive.DaemonPull, true)
			if err != nil {
				res.Inconcl = "tap: " + err.Error()
				return res
			}
			lit, n = tap.LiteralBytes(), len(tap.Responses)
			if tap.Rest > 32 {
				res.Fail = core.Fail("dry_run_sent_data", fmt.Sprintf("%d undecoded payload bytes after the index echoes", tap.Rest), ff...)
				return res
			}
		case drive.DaemonPush, drive.LibPush:
			tap, err := peer.ParsePush(sr.Out.C2S, lo, sc.Arr == drive.DaemonPush, true, effective(sc.Args).del) // a deleting receiver is sent the exclusion list first
			if err != nil {
				res.Inconcl = "tap: " + err.Error()
				return res
			}
			lit, n = tap.LiteralBytes(), len(tap.Responses)
		}
		if lit != 0 {
			res.Fail = core.Fail("dry_run_sent_data", fmt.Sprintf("%d literal bytes", lit), ff...)
			return res
		}
		res.Nontrivial = n > 0
	}
	res.Outcome = fmt.Sprintf("unchanged/echoes>0=%v", res.Nontrivial)
	return res
}

func sortedJoin(ks []string) string {
	for i := range ks {
		for j := i + 1; j < len(ks); j++ {
			if ks[j] < ks[i] {
				ks[i], ks[j] = ks[j], ks[i]
			}
		}
	}
	return strings.Join(ks, "+")
}

func c10BuildMatrix(tier string) core.Source {
	drive.Quiet()
	src, dst := c10Trees()
	type cs struct {
		arr  string
		args []string
	}
	var cases []cs
	letters := "lptgoDcI"
	for mask := 0; mask < 1<<len(letters); mask++ {
		for _, extra := range [][]string{nil, {"--delete"}, {"--devices"}, {"--specials"}} {
			if extra != nil && mask%8 != 0 && tier != "thorough" {
				continue // the long options are combined with every 8th subset in the quick tier
			}
			args := append(subsetArgs(letters, mask, "rn"), extra...)
			for _, arr := range drive.Arrangements {
				cases = append(cases, cs{arr, args})
			}
		}
	}
	return core.FuncSource{N: len(cases), F: func(i int) core.Result {
		c := cases[i]
		return c10Check(&syncCase{Arr: c.arr, Args: c.args, Src: src, Dst: dst, Form: "contents", Rec: c.arr != drive.Local})
	}}
}

// c10BuildSmall: all trees of <=3 entries over 3 names (each absent or one of
// 4 types) on both sides, under -an / -rn --delete.
func c10BuildSmall(tier string) core.Source {
	drive.Quiet()
	kinds := []byte{0, tm.Reg, tm.Dir, tm.Link, tm.Fifo}
	names := []string{"a", "b", "c"}
	mk := func(code int, variant int) tm.Tree {
		var t tm.Tree
		for i, n := range names {
			k := kinds[(code/pow(len(kinds), i))%len(kinds)]
			if k != 0 {
				t = append(t, c10Entry(n, k, variant)...)
			}
		}
		return t
	}
	total := pow(len(kinds), 3)
	type cs struct {
		s, d int
		arr  string
		args []string
	}
	var cases []cs
	for s := 0; s < total; s++ {
		for d := 0; d < total; d++ {
			arrs := []string{drive.LibPull, drive.DaemonPush}
			if tier == "thorough" {
				arrs = drive.Arrangements
			}
			for ai, arr := range arrs {
				args := []string{"-an", "--delete"}
				if (s+d+ai)%2 == 1 {
					args = []string{"-rlDn"}
				}
				cases = append(cases, cs{s, d, arr, args})
			}
		}
	}
	return core.FuncSource{N: len(cases), F: func(i int) core.Result {
		c := cases[i]
		r := c10Check(&syncCase{Arr: c.arr, Args: c.args, Src: mk(c.s, 1), Dst: mk(c.d, 2), Form: "contents", Rec: c.arr != drive.Local})
		r.Case = fmt.Sprintf("src-code=%d dst-code=%d %s", c.s, c.d, r.Case)
		return r
	}}
}

func pow(b, e int) int {
	r := 1
	for i := 0; i < e; i++ {
		r *= b
	}
	return r
}

func init() {
	core.Register(&core.Prop{
		ID:    "C10",
		Level: "model_checking",
		Rule: "matrix: one source/destination pair containing every entry type {reg, dir, symlink, fifo, socket, chr, blk} in every situation {missing, different, same, wrong type} plus extraneous entries; every subset of {-l,-p,-t,-g,-o,-D,-c,-I} with -rn (and --delete/--devices/--specials) in all 5 arrangements; small: all pairs of trees over 3 names x {absent, reg, dir, symlink, fifo} (15 625 pairs) under -an --delete / -rlDn. " +
			"oracle: session succeeds, full snapshot (names, types, bytes, mode, mtime incl. ns, link targets, rdev, owner) of the destination identical before/after, and the decoded wire stream carries index echoes only (no literal bytes). states = destination entries compared, transitions = sessions; non-trivial = dry run in which at least one file was 'requested'",
		Assum: []string{"runs as root on tmpfs", "atime/ctime are not compared"},
		Parts: func(tier string) []core.Part {
			return []core.Part{{Name: "matrix", Build: c10BuildMatrix}, {Name: "small", Build: c10BuildSmall}}
		},
	})
}
