package props

import (
	"fmt"
	"testing/fstest"
	"time"

	"github.com/gokrazy/rsync/internal/sender"
	"github.com/gokrazy/rsync/verifharness/core"
	"github.com/gokrazy/rsync/verifharness/peer"
	rp "github.com/gokrazy/rsync/verifharness/refproto"
	tm "github.com/gokrazy/rsync/verifharness/treemodel"
)

// Structured large layouts for C02 (thorough): block lengths other
// implementations choose, files crossing the sender's read window, remainder
// block reused mid-file, weak-colliding twins, duplicated blocks.

const (
	lopCopy0 = iota
	lopCopy1
	lopCopyLast
	lopCopyRem
	lopLit1
	lopLitBm1
	lopLitB
	lopLitBp1
	lopLit256K
	lopTwin0
	lopLit600K
	nLop
)

var lopNames = []string{"copy0", "copy1", "copyLast", "copyRem", "lit1", "litB-1", "litB", "litB+1", "lit256K+1", "twin0", "lit600001"}

// twin returns a block with the same weak checksum but different content:
// bytes (x,y,y,x) at positions 0..3 become (y,x,x,y).
func twin(blk []byte) []byte {
	t := append([]byte{}, blk...)
	if len(t) >= 4 {
		x, y := byte(0x11), byte(0xee)
		// first make the original pattern explicit in a copy of the block…
		t[0], t[1], t[2], t[3] = y, x, x, y
	}
	return t
}

type c02Layout struct {
	B, K  int
	depth int
}

func c02Basis(l c02Layout) []byte {
	// K full blocks + a remainder block of B/3 bytes; block 0 starts with the x,y,y,x pattern
	n := l.K*l.B + l.B/3
	b := genData(famHash, n, uint32(l.B))
	if n >= 4 {
		b[0], b[1], b[2], b[3] = 0x11, 0xee, 0xee, 0x11
	}
	return b
}

func c02Apply(l c02Layout, basis []byte, script []int, salt uint32) []byte {
	var out []byte
	B := l.B
	for j, op := range script {
		switch op {
		case lopCopy0:
			out = append(out, basis[:B]...)
		case lopCopy1:
			out = append(out, basis[B:2*B]...)
		case lopCopyLast:
			out = append(out, basis[(l.K-1)*B:l.K*B]...)
		case lopCopyRem:
			out = append(out, basis[l.K*B:]...)
		case lopLit1:
			out = append(out, genData(famHash, 1, salt+uint32(j))...)
		case lopLitBm1:
			out = append(out, genData(famHash, B-1, salt+uint32(j)+100)...)
		case lopLitB:
			out = append(out, genData(famHash, B, salt+uint32(j)+200)...)
		case lopLitBp1:
			out = append(out, genData(famHash, B+1, salt+uint32(j)+300)...)
		case lopLit256K:
			out = append(out, genData(famHash, 256*1024+1, salt+uint32(j)+400)...)
		case lopTwin0:
			out = append(out, twin(basis[:B])...)
		case lopLit600K:
			// long enough for the sender's mid-search flush: more than one chunk follows when the run passes 256 KiB
			out = append(out, genData(famHash, 600001, salt+uint32(j)+500)...)
		}
	}
	return out
}

func c02BuildSenderLarge(tier string) core.Source {
	var layouts []c02Layout
	if tier != "thorough" {
		// quick: the generator's minimum block size and one multiple-of-8 size, scripts of depth <=2
		// and two block lengths above the sender's 256 KiB read chunk (legal up to 2^29 in protocol 27)
		layouts = []c02Layout{{700, 2, 2}, {2048, 3, 2}, {262145, 2, 2}, {300000, 2, 2}}
	} else {
		for _, B := range []int{700, 704, 1024, 2048, 4096, 8192, 65536, 131072} {
			layouts = append(layouts, c02Layout{B, 2, 3}, c02Layout{B, 5, 3})
		}
		layouts = append(layouts, c02Layout{700, 1200, 2}, c02Layout{1024, 800, 2})
		layouts = append(layouts, c02Layout{262144, 2, 2}, c02Layout{262145, 2, 2}, c02Layout{300000, 3, 2}, c02Layout{1 << 20, 2, 2})
	}
	type cs struct {
		l     c02Layout
		first int // first op, or -1 for the empty and whole-basis scripts
	}
	var cases []cs
	for _, l := range layouts {
		cases = append(cases, cs{l, -1})
		for op := 0; op < nLop; op++ {
			cases = append(cases, cs{l, op})
		}
	}
	return core.FuncSource{N: len(cases), F: func(i int) core.Result {
		c := cases[i]
		basis := c02Basis(c.l)
		res := core.Result{Case: fmt.Sprintf("B=%d K=%d first=%d depth<=%d", c.l.B, c.l.K, c.first, c.l.depth)}
		var scripts [][]int
		if c.first < 0 {
			scripts = append(scripts, nil)
		} else {
			var gen func(p []int)
			gen = func(p []int) {
				scripts = append(scripts, append([]int{}, p...))
				if len(p) == c.l.depth {
					return
				}
				for op := 0; op < nLop; op++ {
					gen(append(p, op))
				}
			}
			gen([]int{c.first})
		}
		head := rp.LegalHead(len(basis), int32(c.l.B), 16)
		sums := rp.MakeSums(basis, head, c02Seed)
		mixed := 0
		for si, sc := range scripts {
			var target []byte
			if c.first < 0 {
				target = basis // identical file
			} else {
				target = c02Apply(c.l, basis, sc, uint32(si))
			}
			mfs := fstest.MapFS{"t": &fstest.MapFile{Data: target, Mode: 0o644, ModTime: time.Unix(tm.Past, 0)}}
			rs, err := peer.StartSender(sender.NewFSSource(mfs), "mod", []string{"/"}, []string{"--server", "--sender", "-r"}, c02Seed)
			if err != nil {
				res.Inconcl = err.Error()
				return res
			}
			fl, err := rp.DecodeList(rs.Gen.R, rp.ListOpts{})
			if err != nil {
				rs.Close()
				res.Fail = core.Fail("list_undecodable", err.Error())
				return res
			}
			idx := int32(-1)
			for k, e := range rp.SortedIndex(fl.Entries) {
				if string(e.Name) == "t" {
					idx = int32(k)
				}
			}
			resp, err := rs.Gen.Request(idx, sums)
			cnt(&res, "transitions", 1)
			if err != nil {
				serr := rs.Close()
				res.Fail = core.Fail("sender_stopped", fmt.Sprintf("script=%v: %v; sender error: %v", opNames(sc), err, serr))
				return res
			}
			if f := c02CheckResponse(resp, idx, sums, basis, target, c02Seed); f != nil {
				rs.Close()
				f.Detail = fmt.Sprintf("B=%d K=%d script=%v: ", c.l.B, c.l.K, opNames(sc)) + f.Detail
				res.Fail = f
				return res
			}
			hasL, hasR := false, false
			for _, t := range resp.Toks {
				if t.IsLit() {
					hasL = true
				} else {
					hasR = true
				}
			}
			if hasL && hasR {
				mixed++
			}
			rs.Gen.Finish(true)
			rs.Close()
		}
		cnt(&res, "states", res.Counters["transitions"])
		cnt(&res, "traces_validated_against_impl", res.Counters["transitions"])
		res.Nontrivial = mixed > 0
		res.Outcome = fmt.Sprintf("ok/mixed>0=%v", mixed > 0)
		return res
	}}
}

func opNames(sc []int) []string {
	var o []string
	for _, op := range sc {
		o = append(o, lopNames[op])
	}
	return o
}
