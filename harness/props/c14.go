package props

import (
	"fmt"
	"strings"

	"github.com/gokrazy/rsync/verifharness/core"
	"github.com/gokrazy/rsync/verifharness/drive"
	tm "github.com/gokrazy/rsync/verifharness/treemodel"
)

// C14 — both ends agree on the options; the outcome does not depend on who sends.

func c14Trees() (src, dst tm.Tree) {
	src = c15Tree()
	src = append(src, tm.D("nested", 0o750, tm.Past), tm.D("nested/deeper", 0o700, tm.Past), tm.File("nested/deeper/file", genData(famHash, 3000, 14), 0o640, tm.Past+9), tm.File("x", []byte("excluded-by-name"), 0o644, tm.Past), tm.File("nested/x", []byte("excluded-too"), 0o644, tm.Past))
	stale := tm.File("nested/deeper/file", genData(famHash, 3000, 15), 0o600, tm.Past-99)
	same := *src.Find("UPPER")
	// same size and mtime, other content: transferred only under -I or -c
	quick := *src.Find("lower")
	quick.Data = []byte("LOWER")
	dst = tm.Tree{quick, tm.D("nested", 0o755, tm.Past), tm.D("nested/deeper", 0o755, tm.Past), stale, same,
		tm.File("extraneous", []byte("extra"), 0o644, tm.Past), tm.D("extradir", 0o755, tm.Past), tm.File("extradir/f", []byte("f"), 0o644, tm.Past),
		tm.File("x", []byte("protected-if-excluded"), 0o644, tm.Past-5)}
	return
}

// c14Fields: what is compared across arrangements for an option set.
func c14Compare(a, b tm.Tree, e eff) []string {
	f := tm.Fields{Mode: e.p, Mtime: e.t, Owner: e.o && e.g}
	// only regular-file mtimes are defined
	strip := func(t tm.Tree) tm.Tree {
		o := t.Clone()
		for i := range o {
			if o[i].Type != tm.Reg {
				o[i].Mtime, o[i].Nsec = 0, 0
			}
			o[i].Nsec = 0
			if !e.o {
				o[i].Uid = 0
			}
			if !e.g {
				o[i].Gid = 0
			}
		}
		return o
	}
	f.Owner = e.o || e.g
	return tm.Diff(strip(a), strip(b), f)
}

var c14Long = []string{"--devices", "--specials", "--no-D", "--delete", "--exclude=x"}

func c14BuildSubsets(tier string) core.Source {
	drive.Quiet()
	src, dst := c14Trees()
	letters := "lptgoDcIn"
	type cs struct {
		mask int
		long int
		base string // "r" (recursive), "d" (--dirs without recursion) or "" (neither)
	}
	var cases []cs
	// without -r: -d lists the requested directory's immediate entries, neither option skips directories
	for mask := 0; mask < 1<<len(letters); mask++ {
		if mask%8 == 5 || mask == 0 || tier == "thorough" {
			for _, long := range []int{0, 8, 16, 24} { // nothing, --delete, --exclude=x, both
				cases = append(cases, cs{mask, long, "d"})
			}
			cases = append(cases, cs{mask, 0, ""})
		}
	}
	for mask := 0; mask < 1<<len(letters); mask++ {
		if tier == "thorough" {
			for long := 0; long < 1<<len(c14Long); long++ {
				cases = append(cases, cs{mask, long, "r"})
			}
		} else {
			// quick: every letter subset alone, and each long option / pair of long options with every 8th subset
			cases = append(cases, cs{mask, 0, "r"})
			if mask%8 == 5 {
				for long := 1; long < 1<<len(c14Long); long++ {
					if bits(long) <= 2 {
						cases = append(cases, cs{mask, long, "r"})
					}
				}
			}
		}
	}
	return core.FuncSource{N: len(cases), F: func(i int) core.Result {
		c := cases[i]
		args := subsetArgs(letters, c.mask, c.base)
		for b, l := range c14Long {
			if c.long&(1<<b) != 0 {
				args = append(args, l)
			}
		}
		e := effective(args)
		res := core.Result{Case: fmt.Sprintf("options %v in all 5 arrangements", args)}
		var ref tm.Tree
		var refArr string
		for _, arr := range drive.Arrangements {
			sc := &syncCase{Arr: arr, Args: args, Src: src, Dst: dst, Form: "contents"}
			sr, err := sc.run(false)
			if err != nil {
				cleanup(sr.Dir)
				res.Inconcl = err.Error()
				return res
			}
			cnt(&res, "transitions", 1)
			cnt(&res, "traces_validated_against_impl", 1)
			after := sr.After
			ok := sr.Out.OK()
			errs := sr.Out.ErrString() + " | " + tail(sr.Out.Stderr, 300)
			cleanup(sr.Dir)
			dir := "pull"
			if arr == drive.DaemonPush || arr == drive.LibPush || arr == drive.Local {
				dir = "client-sends"
			}
			if !ok {
				res.Outcome = "error"
				res.Fail = core.Fail("session_failed", fmt.Sprintf("%s %v: %s", arr, args, errs), "arr", arr, "direction", dir, "long", longNames(c.long))
				return res
			}
			cnt(&res, "states", int64(len(after)))
			if ref == nil {
				ref, refArr = after, arr
				continue
			}
			if d := c14Compare(ref, after, e); len(d) > 0 {
				res.Outcome = "differs"
				res.Fail = core.Fail("outcome_depends_on_arrangement", fmt.Sprintf("%v: %s vs %s: %s", args, refArr, arr, trunc(strings.Join(d, " ; "), 600)), "arr", arr, "direction", dir, "long", longNames(c.long))
				return res
			}
		}
		res.Nontrivial = true
		res.Outcome = fmt.Sprintf("ok/n=%v", e.n)
		return res
	}}
}

func longNames(mask int) string {
	var s []string
	for b, l := range c14Long {
		if mask&(1<<b) != 0 {
			s = append(s, l)
		}
	}
	return strings.Join(s, "+")
}

func init() {
	core.Register(&core.Prop{
		ID:    "C14",
		Level: "model_checking",
		Rule: "every subset of the single-letter options {-l,-p,-t,-g,-o,-D,-c,-I,-n} with -r (512; also with -d instead of -r and with neither on every 8th subset, with and without --delete / --exclude=x), combined with the long spellings {--devices,--specials,--no-D,--delete,--exclude=x} (quick: singles and pairs on every 8th subset; thorough: all 16 384 combinations), each run as 5 real sessions (daemon pull/push, local, library pull/push) on a tree containing every entry type (so that each option changes the wire format) against a destination with stale, extraneous and exclude-protected entries. " +
			"oracle: no session fails (no desynchronisation) and the 5 resulting destinations are equal on the defined fields (entry set, types, bytes, link targets, rdev, perms under -p, regular-file mtime under -t, owner/group under -o/-g) — a differential oracle with no hand-written expectation. states = destination entries compared, transitions = sessions",
		Assum: []string{"runs as root on tmpfs; directory/symlink mtimes and new-file permissions without -p are undefined and not compared"},
		Parts: func(tier string) []core.Part {
			return []core.Part{{Name: "subsets", Build: c14BuildSubsets}}
		},
	})
}
