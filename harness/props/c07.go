package props

import (
	"context"
	"fmt"
	"io"
	"net"
	"os"
	"path/filepath"
	"strings"
	"time"

	"github.com/gokrazy/rsync/internal/maincmd"
	"github.com/gokrazy/rsync/internal/rsyncdconfig"
	"github.com/gokrazy/rsync/internal/rsyncos"
	"github.com/gokrazy/rsync/rsyncd"
	"github.com/gokrazy/rsync/verifharness/core"
	"github.com/gokrazy/rsync/verifharness/drive"
	"github.com/gokrazy/rsync/verifharness/peer"
	rp "github.com/gokrazy/rsync/verifharness/refproto"
	tm "github.com/gokrazy/rsync/verifharness/treemodel"
)

// C07 — read-only modules are never modified.

var c07Flags = []string{"-r", "-l", "-p", "-t", "-D", "-c", "-I", "-n", "--delete", "-v"}
var c07Targets = []string{"mod/", "mod/sub/", "mod/../x", "mod", "mod/sub/newdir/"}

type c07Case struct {
	mask      int
	target    int
	config    int // 0: one read-only dir module; 1: read-only next to writable modules with prefix-related names; 2: fs.FS module
	transport int // 0 in-memory HandleDaemonConn, 1 TCP Serve, 2 stdio via Main --server --daemon
	hostile   int // 0 benign list; >0 hostile list variant
}

func (c c07Case) flags() []string {
	var f []string
	for i, x := range c07Flags {
		if c.mask&(1<<i) != 0 {
			f = append(f, x)
		}
	}
	return f
}

func c07ModuleTree() tm.Tree {
	return tm.Tree{tm.File("keep", []byte("read-only content"), 0o644, tm.Past), tm.D("sub", 0o755, tm.Past), tm.File("sub/inner", []byte("inner"), 0o600, tm.Past), tm.L("sub/link", "inner"), tm.File("stale", []byte("old"), 0o644, tm.Past-9)}
}

func c07Script(hostile int) *peer.SenderScript {
	list := &rp.FList{}
	data := map[int32][]byte{}
	names := []string{".", "keep", "stale", "new-file", "sub", "sub/inner"}
	switch hostile {
	case 1:
		names = []string{".", "../escape", "keep"}
	case 2:
		names = []string{".", "sub/link", "keep", "/abs"}
	}
	for _, n := range names {
		e := rp.FEntry{Name: []byte(n), Len: 9, Mtime: tm.Past + 77, Mode: rp.SIFREG | 0o666}
		if n == "." || n == "sub" {
			e.Mode, e.Len = rp.SIFDIR|0o777, 4096
			e.TopDir = n == "."
		}
		list.Entries = append(list.Entries, e)
	}
	for k, e := range rp.SortedIndex(list.Entries) {
		if e.Mode&rp.SIFMT == rp.SIFREG {
			data[int32(k)] = []byte("OVERWRITE")
		}
	}
	return &peer.SenderScript{List: list, Seed: 7, Data: data, HalfClose: true}
}

func c07Run(c c07Case) core.Result {
	res := core.Result{Case: fmt.Sprintf("flags=%v target=%q config=%d transport=%d hostile=%d", c.flags(), c07Targets[c.target], c.config, c.transport, c.hostile)}
	dir := workDir()
	defer cleanup(dir)
	ro := filepath.Join(dir, "ro")
	rw1, rw2 := filepath.Join(dir, "rw-module"), filepath.Join(dir, "rw-mo")
	c07ModuleTree().Materialise(ro)
	c07ModuleTree().Materialise(rw1)
	c07ModuleTree().Materialise(rw2)
	var mods []rsyncd.Module
	switch c.config {
	case 0:
		mods = []rsyncd.Module{{Name: "mod", Path: ro}}
	case 1:
		mods = []rsyncd.Module{{Name: "module", Path: rw1, Writable: true}, {Name: "mod", Path: ro}, {Name: "mo", Path: rw2, Writable: true}}
	case 2:
		mods = []rsyncd.Module{{Name: "mod", FS: os.DirFS(ro)}}
	}
	before, _ := tm.Snapshot(dir, false)
	args := append([]string{"--server"}, c.flags()...)
	args = append(args, ".", c07Targets[c.target])
	script := c07Script(c.hostile)
	sendFilter := c.mask&(1<<8) != 0
	var errLine string
	var scriptErr, serverErr error
	switch c.transport {
	case 0:
		serverErr, _, errLine, scriptErr, _ = peer.DaemonVsScriptedClient(mods, "mod", args, script, sendFilter)
	case 1:
		srv, err := rsyncd.NewServer(mods, rsyncd.DontRestrict(), rsyncd.WithStderr(io.Discard), rsyncd.WithLogger(nullLogger{}))
		if err != nil {
			res.Inconcl = err.Error()
			return res
		}
		ln, err := net.Listen("tcp", "127.0.0.1:0")
		if err != nil {
			res.Inconcl = err.Error()
			return res
		}
		ctx, cancel := context.WithCancel(context.Background())
		go srv.Serve(ctx, ln)
		conn, err := net.Dial("tcp", ln.Addr().String())
		if err != nil {
			cancel()
			res.Inconcl = err.Error()
			return res
		}
		script.BeforeGoodbye = func() { conn.(*net.TCPConn).CloseWrite() }
		_, errLine, scriptErr = peer.ScriptedDaemonClientSender(conn, "mod", args, script, sendFilter)
		conn.Close()
		cancel()
		time.Sleep(2 * time.Millisecond)
	case 2:
		c2s, s2c := drive.NewPipe(false), drive.NewPipe(false)
		done := make(chan struct{})
		go func() {
			defer close(done)
			osenv := &rsyncos.Env{Stdin: c2s, Stdout: s2c, Stderr: io.Discard, DontRestrict: true}
			_, serverErr = maincmd.Main(context.Background(), osenv, []string{"gokr-rsync", "--server", "--daemon", "."}, &rsyncdconfig.Config{Modules: mods})
			s2c.Close()
		}()
		script.BeforeGoodbye = func() { c2s.Close() }
		_, errLine, scriptErr = peer.ScriptedDaemonClientSender(&drive.RW{Reader: s2c, Writer: c2s}, "mod", args, script, sendFilter)
		c2s.Close()
		<-done
	}
	after, _ := tm.Snapshot(dir, false)
	cnt(&res, "transitions", 1)
	cnt(&res, "states", int64(len(before)))
	cnt(&res, "traces_validated_against_impl", 1)
	ff := []string{"config", fmt.Sprint(c.config), "transport", fmt.Sprint(c.transport)}
	if d := tm.Diff(before, after, tm.Full); len(d) > 0 {
		res.Outcome = "modified"
		res.Fail = core.Fail("read_only_module_or_neighbour_modified", trunc(strings.Join(d, " ; "), 600), ff...)
		return res
	}
	if scriptErr == nil {
		res.Outcome = "accepted"
		res.Fail = core.Fail("upload_to_read_only_module_not_refused", fmt.Sprintf("the uploading client saw no error (server error: %v)", serverErr), ff...)
		return res
	}
	// Over a real socket the server may close (RST) while the client is still
	// writing, so the text of the refusal can be lost to EPIPE: the message is
	// demanded only on the in-memory transport, where ordering is deterministic.
	if c.transport == 0 && !strings.Contains(strings.ToLower(errLine+" "+scriptErr.Error()), "read only") && !strings.Contains(errLine+scriptErr.Error(), "@ERROR") {
		res.Outcome = "refused-without-message"
		res.Fail = core.Fail("refusal_not_reported", fmt.Sprintf("client error %q / %v carries no read-only error", errLine, scriptErr), ff...)
		return res
	}
	res.Outcome = fmt.Sprintf("refused/config=%d/transport=%d/msg=%v", c.config, c.transport, strings.Contains(strings.ToLower(errLine+scriptErr.Error()), "read only"))
	res.Nontrivial = true
	return res
}

func c07BuildMem(tier string) core.Source {
	drive.Quiet()
	var cases []c07Case
	for mask := 0; mask < 1<<len(c07Flags); mask++ {
		for t := range c07Targets {
			for cfg := 0; cfg < 3; cfg++ {
				if tier != "thorough" && (mask+t+cfg)%3 != 0 && bits(mask) > 2 {
					continue // quick: all subsets of <=2 flags fully, larger subsets on a third of (target, config) pairs
				}
				cases = append(cases, c07Case{mask: mask, target: t, config: cfg})
			}
		}
	}
	for h := 1; h <= 2; h++ {
		for cfg := 0; cfg < 3; cfg++ {
			for t := range c07Targets {
				for _, mask := range []int{1, 1 | 1<<8, 1 | 2 | 4 | 8 | 16} {
					cases = append(cases, c07Case{mask: mask, target: t, config: cfg, hostile: h})
				}
			}
		}
	}
	return core.FuncSource{N: len(cases), F: func(i int) core.Result { return c07Run(cases[i]) }}
}

// c07BuildHistories: one long-lived Server on which other requests have been
// served before: a read-only module that shares its directory with a writable
// one ("pub" and "upload" on one path) and read-only modules next to writable
// ones. After legitimate uploads through the writable modules, every upload
// addressed to a read-only module must still be refused and change nothing.
func c07BuildHistories(tier string) core.Source {
	drive.Quiet()
	type cs struct {
		masks  []int
		target int
		warm   int // 0: no earlier request, 1: an upload into the writable alias first, 2: two uploads and a download first
	}
	var cases []cs
	masks := []int{0, 1, 1 | 1<<8, 2, 1 | 2 | 4 | 8 | 16, 1 << 5, 1 << 6, 1 << 7}
	for t := range c07Targets {
		for warm := 0; warm < 3; warm++ {
			cases = append(cases, cs{masks, t, warm})
		}
	}
	return core.FuncSource{N: len(cases), F: func(i int) core.Result {
		c := cases[i]
		res := core.Result{Case: fmt.Sprintf("one server, earlier requests=%d, then uploads addressed to read-only modules (target %q, %d flag sets); modules pub(ro)+upload(rw) share a directory", c.warm, c07Targets[c.target], len(c.masks))}
		dir := workDir()
		defer cleanup(dir)
		shared, ro, rw := filepath.Join(dir, "shared"), filepath.Join(dir, "ro"), filepath.Join(dir, "rw")
		for _, d := range []string{shared, ro, rw} {
			c07ModuleTree().Materialise(d)
		}
		mods := []rsyncd.Module{{Name: "upload", Path: shared, Writable: true}, {Name: "mod", Path: shared}, {Name: "module", Path: rw, Writable: true}, {Name: "mo", Path: ro}}
		srv, err := rsyncd.NewServer(mods, rsyncd.DontRestrict(), rsyncd.WithStderr(io.Discard), rsyncd.WithLogger(nullLogger{}))
		if err != nil {
			res.Inconcl = err.Error()
			return res
		}
		session := func(module string, args []string, script *peer.SenderScript) (errLine string, scriptErr error) {
			c2s, s2c := drive.NewPipe(false), drive.NewPipe(false)
			done := make(chan struct{})
			go func() {
				defer close(done)
				srv.HandleDaemonConn(context.Background(), rsyncd.NewConnection(c2s, s2c, "127.0.0.1:7"))
				s2c.Close()
			}()
			script.BeforeGoodbye = func() { c2s.Close() }
			_, errLine, scriptErr = peer.ScriptedDaemonClientSender(&drive.RW{Reader: s2c, Writer: c2s}, module, args, script, false)
			c2s.Close()
			<-done
			return
		}
		for k := 0; k < c.warm; k++ {
			for _, m := range []string{"upload", "module"} {
				if _, e := session(m, []string{"--server", "-rt", ".", m + "/"}, c07Script(0)); e != nil {
					res.Inconcl = fmt.Sprintf("harness: legitimate upload into %s failed: %v", m, e)
					return res
				}
			}
		}
		for _, mask := range c.masks {
			for _, module := range []string{"mod", "mo"} {
				cc := c07Case{mask: mask, target: c.target}
				args := append([]string{"--server"}, cc.flags()...)
				target := strings.Replace(c07Targets[c.target], "mod", module, 1)
				args = append(args, ".", target)
				before, _ := tm.Snapshot(dir, false)
				errLine, scriptErr := session(module, args, c07Script(0))
				after, _ := tm.Snapshot(dir, false)
				cnt(&res, "transitions", 1)
				cnt(&res, "states", int64(len(before)))
				cnt(&res, "traces_validated_against_impl", 1)
				ff := []string{"part", "histories", "module", module, "warm", fmt.Sprint(c.warm)}
				if d := tm.Diff(before, after, tm.Full); len(d) > 0 {
					res.Fail = core.Fail("read_only_module_or_neighbour_modified", fmt.Sprintf("upload addressed to read-only module %q with %v after %d earlier requests: %s", module, args, c.warm, trunc(strings.Join(d, " ; "), 500)), ff...)
					return res
				}
				if scriptErr == nil {
					res.Fail = core.Fail("upload_to_read_only_module_not_refused", fmt.Sprintf("upload addressed to read-only module %q with %v after %d earlier requests was not refused (%q)", module, args, c.warm, errLine), ff...)
					return res
				}
			}
		}
		res.Nontrivial = true
		res.Outcome = fmt.Sprintf("refused/warm=%d", c.warm)
		return res
	}}
}

// c07BuildConfig: the module table comes from configuration FILES, loaded by every loader the daemon has
// (FromString, FromFile, FromDefaultFiles with user and system-wide configuration directories populated,
// and maincmd's --server --daemon route that calls FromDefaultFiles itself). A module whose entry does not
// say writable = true must refuse uploads whatever other files, other modules or other keys say.
func c07BuildConfig(tier string) core.Source {
	drive.Quiet()
	// how the user's file spells "not writable" for module i, and what stands around it
	spell := []string{"", "writable = false\n", "# writable = true\n", "acl = []\n"}
	type cs struct {
		spell  int
		nUser  int // modules in the user's file (the read-only ones); a writable one is appended when > 0
		nSys   int // modules in a system-wide file, all writable = true
		loader int // 0 FromString, 1 FromFile, 2 FromDefaultFiles, 3 maincmd --server --daemon with cfg == nil
	}
	var cases []cs
	for sp := range spell {
		for _, nu := range []int{1, 2} {
			for _, ns := range []int{0, 1, 3} {
				for loader := 0; loader < 4; loader++ {
					cases = append(cases, cs{sp, nu, ns, loader})
				}
			}
		}
	}
	return core.FuncSource{N: len(cases), F: func(i int) core.Result {
		c := cases[i]
		res := core.Result{Case: fmt.Sprintf("configuration files: %d read-only module(s) spelled %q + one writable module in the user's file, %d writable module(s) in a system-wide file, loader %d", c.nUser, spell[c.spell], c.nSys, c.loader)}
		dir := workDir()
		defer cleanup(dir)
		var user, sys strings.Builder
		for k := 0; k < c.nUser; k++ {
			d := filepath.Join(dir, fmt.Sprintf("ro%d", k))
			c07ModuleTree().Materialise(d)
			fmt.Fprintf(&user, "[[module]]\nname = \"ro%d\"\npath = %q\n%s\n", k, d, spell[c.spell])
		}
		rw := filepath.Join(dir, "rw")
		c07ModuleTree().Materialise(rw)
		fmt.Fprintf(&user, "[[module]]\nname = \"rw\"\npath = %q\nwritable = true\n", rw)
		for k := 0; k < c.nSys; k++ {
			d := filepath.Join(dir, fmt.Sprintf("sys%d", k))
			c07ModuleTree().Materialise(d)
			fmt.Fprintf(&sys, "[[module]]\nname = \"sys%d\"\npath = %q\nwritable = true\nacl = [\"allow all\"]\n\n", k, d)
		}
		home, etc := filepath.Join(dir, "home-config"), filepath.Join(dir, "etc-xdg")
		os.MkdirAll(home, 0o755)
		os.MkdirAll(etc, 0o755)
		os.WriteFile(filepath.Join(home, "gokr-rsyncd.toml"), []byte(user.String()), 0o644)
		if c.nSys > 0 {
			os.WriteFile(filepath.Join(etc, "gokr-rsyncd.toml"), []byte(sys.String()), 0o644)
		}
		for _, kv := range [][2]string{{"XDG_CONFIG_HOME", home}, {"XDG_CONFIG_DIRS", etc}} {
			old, had := os.LookupEnv(kv[0])
			os.Setenv(kv[0], kv[1])
			defer func(k, v string, had bool) {
				if had {
					os.Setenv(k, v)
				} else {
					os.Unsetenv(k)
				}
			}(kv[0], old, had)
		}
		var cfg *rsyncdconfig.Config
		var err error
		switch c.loader {
		case 0:
			cfg, err = rsyncdconfig.FromString(user.String())
		case 1:
			cfg, err = rsyncdconfig.FromFile(filepath.Join(home, "gokr-rsyncd.toml"))
		case 2:
			cfg, _, err = rsyncdconfig.FromDefaultFiles()
		}
		if err != nil {
			res.Inconcl = "harness: configuration did not load: " + err.Error()
			return res
		}
		session := func(module string) (errLine string, scriptErr error) {
			c2s, s2c := drive.NewPipe(false), drive.NewPipe(false)
			done := make(chan struct{})
			go func() {
				defer close(done)
				if c.loader == 3 {
					osenv := &rsyncos.Env{Stdin: c2s, Stdout: s2c, Stderr: io.Discard, DontRestrict: true}
					maincmd.Main(context.Background(), osenv, []string{"gokr-rsync", "--server", "--daemon", "."}, nil)
				} else {
					srv, err := rsyncd.NewServer(cfg.Modules, rsyncd.DontRestrict(), rsyncd.WithStderr(io.Discard), rsyncd.WithLogger(nullLogger{}))
					if err == nil {
						srv.HandleDaemonConn(context.Background(), rsyncd.NewConnection(c2s, s2c, "127.0.0.1:7"))
					}
				}
				s2c.Close()
			}()
			script := c07Script(0)
			script.BeforeGoodbye = func() { c2s.Close() }
			_, errLine, scriptErr = peer.ScriptedDaemonClientSender(&drive.RW{Reader: s2c, Writer: c2s}, module, []string{"--server", "-rt", ".", module + "/"}, script, false)
			c2s.Close()
			<-done
			return
		}
		for k := 0; k < c.nUser; k++ {
			module := fmt.Sprintf("ro%d", k)
			before, _ := tm.Snapshot(dir, false)
			errLine, scriptErr := session(module)
			after, _ := tm.Snapshot(dir, false)
			cnt(&res, "transitions", 1)
			cnt(&res, "states", int64(len(before)))
			cnt(&res, "traces_validated_against_impl", 1)
			ff := []string{"part", "config", "loader", fmt.Sprint(c.loader)}
			if d := tm.Diff(before, after, tm.Full); len(d) > 0 {
				res.Fail = core.Fail("read_only_module_or_neighbour_modified", fmt.Sprintf("%s: upload to %s: %s", res.Case, module, trunc(strings.Join(d, " ; "), 400)), ff...)
				return res
			}
			if scriptErr == nil {
				res.Fail = core.Fail("upload_to_read_only_module_not_refused", fmt.Sprintf("%s: upload to %s was not refused (%q)", res.Case, module, errLine), ff...)
				return res
			}
		}
		res.Nontrivial = true
		res.Outcome = fmt.Sprintf("refused/loader=%d", c.loader)
		return res
	}}
}

func c07BuildTransports(tier string) core.Source {
	drive.Quiet()
	var cases []c07Case
	step := 37
	if tier == "thorough" {
		step = 5
	}
	for tr := 1; tr <= 2; tr++ {
		for mask := 0; mask < 1<<len(c07Flags); mask += step {
			for t := range c07Targets {
				for cfg := 0; cfg < 3; cfg++ {
					cases = append(cases, c07Case{mask: mask, target: t, config: cfg, transport: tr})
				}
			}
		}
	}
	return core.FuncSource{N: len(cases), F: func(i int) core.Result { return c07Run(cases[i]) }}
}

func init() {
	core.Register(&core.Prop{
		ID:    "C07",
		Level: "model_checking",
		Rule: "mem: every subset of the receive-mode flag alphabet {-r,-l,-p,-t,-D,-c,-I,-n,--delete,-v} (1024; quick: all subsets of <=2 flags on every (target, module config), larger subsets on a third of them) x target forms {mod/, mod/sub/, mod/../x, mod, mod/sub/newdir/} x module configurations {one read-only directory module; read-only module between writable modules with prefix-related names (module, mod, mo); fs.FS-backed module}, uploaded by a scripted client speaking the daemon protocol with benign and hostile file lists; transports: the same over TCP (Server.Serve) and over stdin/stdout (maincmd.Main --server --daemon). " +
			"histories: one long-lived Server with a read-only module sharing its directory with a writable one (and further read-only/writable neighbours); after 0, 1 or 2 rounds of legitimate uploads through the writable modules, uploads addressed to the read-only modules with 8 flag sets x 5 target forms must still be refused and change nothing. " +
			"config: module tables loaded from configuration files by each loader (FromString, FromFile, FromDefaultFiles and the --server --daemon route, with user and system-wide configuration directories populated) for 4 spellings of a non-writable module x 1-2 such modules x 0/1/3 writable modules in a system-wide file. " +
			"oracle: the full snapshot of the directory holding all modules is identical before/after, the client sees an error mentioning read only / @ERROR. states = entries compared, transitions = sessions",
		Assum: []string{"fs.FS module is an os.DirFS over the read-only directory"},
		Parts: func(tier string) []core.Part {
			return []core.Part{{Name: "mem", Build: c07BuildMem}, {Name: "histories", Build: c07BuildHistories}, {Name: "config", Build: c07BuildConfig}, {Name: "transports", Build: c07BuildTransports}}
		},
	})
}
