package props

import (
	"bufio"
	"bytes"
	"context"
	"fmt"
	"io"
	"io/fs"
	"os"
	"path"
	"path/filepath"
	"strings"
	"testing/fstest"
	"time"

	"github.com/gokrazy/rsync/rsyncd"
	"github.com/gokrazy/rsync/verifharness/core"
	"github.com/gokrazy/rsync/verifharness/drive"
	"github.com/gokrazy/rsync/verifharness/peer"
	rp "github.com/gokrazy/rsync/verifharness/refproto"
	tm "github.com/gokrazy/rsync/verifharness/treemodel"
)

// C06 — a daemon discloses only what lies inside the requested module.

var (
	c06SecretContent = []byte("TOPSECRET-CONTENT-c06-" + strings.Repeat("s3cr3t!", 40))
	c06OtherContent  = []byte("OTHER-MODULE-ONLY-c06-" + strings.Repeat("0ther!", 40))
)

const (
	c06SecretMtime = 987654321
	c06OtherMtime  = 876543219
)

func c06Inside() tm.Tree {
	return tm.Tree{
		tm.File("inside-file", []byte("inside file content"), 0o644, tm.Past),
		tm.D("inside-dir", 0o755, tm.Past),
		tm.File("inside-dir/nested", []byte("nested inside"), 0o600, tm.Past+1),
		tm.D("inside-dir/mod", 0o755, tm.Past),
		tm.File("inside-dir/mod/deep", []byte("deep inside"), 0o644, tm.Past+2),
		tm.D("mod", 0o755, tm.Past),
		tm.File("mod/x", []byte("file in a directory named like the module"), 0o644, tm.Past+3),
		tm.L("link-in", "inside-file"),
		tm.L("link-out-dir", "../outside"),
		tm.L("link-out-file", "../outside/tgt.txt"),
		tm.L("inside-dir/link-up", "../../outside"),
	}
}

func c06Outside() tm.Tree {
	return tm.Tree{
		tm.File("outside/tgt.txt", c06SecretContent, 0o600, c06SecretMtime),
		tm.D("outside/SECRETDIR", 0o700, c06SecretMtime),
		tm.File("outside/SECRETDIR/SECRETDEEP", c06SecretContent[:50], 0o600, c06SecretMtime),
		tm.File("outside/SIBLINGSECRET", c06SecretContent[:70], 0o600, c06SecretMtime),
		tm.File("other/OTHERONLY.txt", c06OtherContent, 0o644, c06OtherMtime),
		tm.D("other/OTHERDIR", 0o755, c06OtherMtime),
		tm.File("other2/OTHERONLY2.txt", c06OtherContent[:60], 0o644, c06OtherMtime),
	}
}

var c06Comps = []string{"", ".", "..", "inside-dir", "inside-file", "link-in", "link-out-dir", "link-out-file", "link-abs", "mod"}

type c06Case struct {
	path string
	opt  int  // 0 -r, 1 -rl, 2 -rc, 3 -rlc
	kind int  // 0 directory module, 1 MapFS module, 2 os.Root.FS() module
	warm bool // the same Server has served its other modules (complete downloads) before this request
}

var c06Opts = []string{"-r", "-rl", "-rc", "-rlc"}

// c06Session: scripted receiving client speaking the daemon protocol.
func c06Session(srv *rsyncd.Server, module string, args []string, lo rp.ListOpts) (raw []byte, list *rp.FList, responses []peer.Response, errText string, err error) {
	c2s, s2c := drive.NewPipe(false), drive.NewPipe(true)
	done := make(chan struct{})
	go func() {
		defer close(done)
		srv.HandleDaemonConn(context.Background(), rsyncd.NewConnection(c2s, s2c, "127.0.0.1:6"))
		s2c.Close()
	}()
	defer func() {
		c2s.Close()
		<-done
		raw = append([]byte{}, s2c.Log.Bytes()...)
	}()
	br := bufio.NewReader(s2c)
	fmt.Fprintf(c2s, "@RSYNCD: 27\n")
	if _, err = br.ReadString('\n'); err != nil {
		return
	}
	fmt.Fprintf(c2s, "%s\n", module)
	for {
		var line string
		line, err = br.ReadString('\n')
		if err != nil {
			return
		}
		line = strings.TrimSpace(line)
		if line == "@RSYNCD: OK" {
			break
		}
		if strings.HasPrefix(line, "@ERROR") {
			errText = line
			return
		}
	}
	for _, a := range args {
		fmt.Fprintf(c2s, "%s\n", a)
	}
	fmt.Fprintf(c2s, "\n")
	r0 := &rp.R{Rd: br}
	r0.Int() // seed
	if r0.Err != nil {
		err = r0.Err
		return
	}
	dm := &rp.DemuxReader{Rd: br}
	r := &rp.R{Rd: dm}
	var w rp.W
	w.Int(0) // empty filter list
	c2s.Write(w.Bytes())
	list, err = rp.DecodeList(r, lo)
	if err != nil {
		errText = strings.Join(dm.Errors, ";")
		return
	}
	sorted := rp.SortedIndex(list.Entries)
	gen := &peer.Generator{R: r, W: c2s}
	// a hostile receiver requests every index, whatever its type, first as a
	// whole file and then with a (bogus) non-empty sum set
	for pass := 0; pass < 2; pass++ {
		for k := range sorted {
			sums := rp.Sums{Head: rp.SumHead{Count: 0, BLen: 700, S2Len: 16}}
			if pass == 1 {
				sums = rp.MakeSums([]byte("abcdefgh"), rp.LegalHead(8, 4, 16), 1)
			}
			var ww rp.W
			ww.Int(int32(k))
			sums.Write(&ww)
			c2s.Write(ww.Bytes())
		}
	}
	var fin rp.W
	fin.Int(-1)
	c2s.Write(fin.Bytes())
	// read whatever comes back until the phase acknowledgement
	for {
		idx := r.Int()
		if r.Err != nil {
			err = r.Err
			errText = strings.Join(dm.Errors, ";")
			return
		}
		if idx == -1 {
			break
		}
		resp := peer.Response{Idx: idx}
		resp.Head = rp.ReadHead(r)
		resp.Toks = rp.ReadTokens(r)
		r.Full(resp.Trailer[:])
		if r.Err != nil {
			err = r.Err
			return
		}
		responses = append(responses, resp)
	}
	_ = gen
	c2s.Write(fin.Bytes())
	r.Int()
	r.Long()
	r.Long()
	r.Long()
	c2s.Write(fin.Bytes())
	return
}

func c06Run(c c06Case) core.Result {
	res := core.Result{Case: fmt.Sprintf("request path %q opts %s module kind %d", c.path, c06Opts[c.opt], c.kind)}
	dir := workDir()
	defer cleanup(dir)
	inside := c06Inside()
	inside = append(inside, tm.L("link-abs", filepath.Join(dir, "outside", "tgt.txt")))
	inside.Materialise(filepath.Join(dir, "modroot"))
	c06Outside().Materialise(dir)
	var mods []rsyncd.Module
	var closers []io.Closer
	switch c.kind {
	case 0:
		mods = []rsyncd.Module{{Name: "m", Path: filepath.Join(dir, "other")}, {Name: "mod", Path: filepath.Join(dir, "modroot")}, {Name: "module", Path: filepath.Join(dir, "other2")}}
	case 1:
		mfs := fstest.MapFS{}
		for _, e := range inside {
			switch e.Type {
			case tm.Reg:
				mfs[e.Path] = &fstest.MapFile{Data: e.Data, Mode: fs.FileMode(e.Mode), ModTime: time.Unix(e.Mtime, 0)}
			case tm.Dir:
				mfs[e.Path] = &fstest.MapFile{Mode: fs.ModeDir | fs.FileMode(e.Mode), ModTime: time.Unix(e.Mtime, 0)}
			}
		}
		mods = []rsyncd.Module{{Name: "m", Path: filepath.Join(dir, "other")}, {Name: "mod", FS: mfs}, {Name: "module", Path: filepath.Join(dir, "other2")}}
	case 2:
		root, err := os.OpenRoot(filepath.Join(dir, "modroot"))
		if err != nil {
			res.Inconcl = err.Error()
			return res
		}
		closers = append(closers, root)
		mods = []rsyncd.Module{{Name: "m", Path: filepath.Join(dir, "other")}, {Name: "mod", FS: root.FS()}, {Name: "module", Path: filepath.Join(dir, "other2")}}
	}
	defer func() {
		for _, cl := range closers {
			cl.Close()
		}
	}()
	srv, err := rsyncd.NewServer(mods, rsyncd.DontRestrict(), rsyncd.WithStderr(io.Discard), rsyncd.WithLogger(nullLogger{}))
	if err != nil {
		res.Inconcl = err.Error()
		return res
	}
	lo := rp.ListOpts{Links: c.opt&1 != 0, Checksum: c.opt&2 != 0}
	if c.warm {
		// whatever serving the neighbours leaves behind in the Server must not show up in this answer
		res.Case += " after complete downloads of the neighbouring modules from the same Server"
		for _, m := range []string{"m", "module", "m"} {
			c06Session(srv, m, []string{"--server", "--sender", c06Opts[c.opt], ".", m + "/"}, lo)
		}
	}
	raw, list, responses, errText, serr := c06Session(srv, "mod", []string{"--server", "--sender", c06Opts[c.opt], ".", c.path}, lo)
	cnt(&res, "transitions", 1)
	cnt(&res, "traces_validated_against_impl", 1)
	ff := []string{"kind", fmt.Sprint(c.kind), "opts", c06Opts[c.opt]}
	// 1. raw stream scan
	for _, sec := range [][]byte{c06SecretContent[:24], c06OtherContent[:24], []byte("SIBLINGSECRET"), []byte("SECRETDIR"), []byte("SECRETDEEP"), []byte("OTHERONLY"), []byte("OTHERDIR")} {
		if bytes.Contains(raw, sec) {
			res.Outcome = "leak"
			res.Fail = core.Fail("outside_data_in_stream", fmt.Sprintf("the server's byte stream contains %q (path %q)", sec, c.path), ff...)
			return res
		}
	}
	for _, mt := range []int32{c06SecretMtime, c06OtherMtime} {
		var w rp.W
		w.Int(mt)
		if bytes.Contains(raw, w.Bytes()) {
			res.Outcome = "leak"
			res.Fail = core.Fail("outside_metadata_in_stream", fmt.Sprintf("the server's byte stream contains the modification time of an outside object (path %q)", c.path), ff...)
			return res
		}
	}
	// 2. decoded list vs inside inventory
	n := 0
	if list != nil {
		inv := map[string][]tm.Entry{}
		for _, e := range inside {
			inv[path.Base(e.Path)] = append(inv[path.Base(e.Path)], e)
			// a symlink that points inside the module may be presented with its (inside) target's attributes
			if e.Type == tm.Link && !strings.HasPrefix(e.Target, "/") && !strings.Contains(e.Target, "..") {
				if t := inside.Find(path.Join(path.Dir(e.Path), e.Target)); t != nil {
					inv[path.Base(e.Path)] = append(inv[path.Base(e.Path)], *t)
				}
			}
		}
		for _, e := range list.Entries {
			n++
			name := path.Clean(string(e.Name))
			base := path.Base(name)
			if name == "." || base == "modroot" {
				continue // the module root itself
			}
			ok := false
			for _, in := range inv[base] {
				if modeBits(in)&rp.SIFMT != e.Mode&rp.SIFMT {
					continue
				}
				if in.Type == tm.Reg && (int64(len(in.Data)) != e.Len || (lo.Checksum && e.Sum != rp.ListSum(in.Data))) {
					continue
				}
				if in.Type != tm.Link && int64(e.Mtime) != in.Mtime {
					continue
				}
				if in.Type == tm.Link && lo.Links && string(e.Link) != in.Target {
					continue
				}
				ok = true
			}
			if !ok {
				res.Outcome = "leak"
				res.Fail = core.Fail("listed_entry_not_inside_module", fmt.Sprintf("path %q: entry %q (mode %o, len %d, mtime %d) matches no object inside the module", c.path, name, e.Mode, e.Len, e.Mtime), ff...)
				return res
			}
		}
	}
	// 3. file data served for any index must be inside content
	for _, r := range responses {
		den, _ := rp.Denote(r.Toks, []byte("abcdefgh"), r.Head)
		ok := false
		for _, in := range inside {
			if in.Type == tm.Reg && bytes.Equal(in.Data, den) {
				ok = true
			}
		}
		if !ok && len(den) > 0 {
			res.Outcome = "leak"
			res.Fail = core.Fail("served_data_not_inside_module", fmt.Sprintf("path %q: a response carries %d bytes that are no inside file's content: %q", c.path, len(den), trunc(string(den), 60)), ff...)
			return res
		}
	}
	cnt(&res, "states", int64(n+len(responses)))
	res.Nontrivial = n > 0
	res.Outcome = fmt.Sprintf("contained/listed>0=%v/served>0=%v/err=%v", n > 0, len(responses) > 0, errText != "" || serr != nil)
	return res
}

func c06BuildPaths(tier string) core.Source {
	drive.Quiet()
	depth := 3
	if tier == "thorough" {
		depth = 4
	}
	var paths []string
	for _, first := range []string{"mod", "m", "module", ""} {
		var gen func(p string, d int)
		gen = func(p string, d int) {
			paths = append(paths, p)
			if d == depth {
				return
			}
			for _, c := range c06Comps {
				gen(p+"/"+c, d+1)
			}
		}
		gen(first, 0)
	}
	// absolute and odd forms
	paths = append(paths, "/", "//", "/etc/passwd", "mod/../../outside", "mod/../outside/tgt.txt", "mod/link-out-dir/SECRETDIR/", "mod/inside-dir/link-up/", "mod/inside-dir/link-up/tgt.txt", "../outside/", "mod/./../outside/", "module/../outside")
	var cases []c06Case
	for pi, p := range paths {
		for opt := 0; opt < 4; opt++ {
			for kind := 0; kind < 3; kind++ {
				if tier != "thorough" && (pi+opt+kind)%2 != 0 && strings.Count(p, "/") >= 3 {
					continue // quick: depth-3 paths on half of the (option, module kind) pairs
				}
				cases = append(cases, c06Case{p, opt, kind, false})
				if strings.Count(p, "/") <= 1 || tier == "thorough" {
					cases = append(cases, c06Case{p, opt, kind, true})
				}
			}
		}
	}
	return core.FuncSource{N: len(cases), F: func(i int) core.Result { return c06Run(cases[i]) }}
}

func init() {
	core.Register(&core.Prop{
		ID:    "C06",
		Level: "model_checking",
		Rule: "every request path of the grammar [mod|m|module|\"\"](\"/\" comp){0..3} (thorough 0..4) with comp in {\"\", ., .., inside-dir, inside-file, link-in, link-out-dir, link-out-file, link-abs, mod} plus hand-picked absolute/odd forms, x options {-r,-rl,-rc,-rlc} x module kinds {directory, MapFS, os.Root.FS()} with three modules whose names are prefixes of each other (paths of depth <=1 also after the same Server has served complete downloads of the two neighbouring modules); a scripted receiving client speaks the daemon protocol, decodes the list and then requests every index (any entry type) with an empty and with a non-empty sum set. " +
			"oracle: the raw server byte stream contains no outside content, name or modification time (outside objects carry unique ones); every decoded entry matches an inside object (type, size, mtime, link target text, -c checksum); every served byte sequence is an inside file's content. states = entries and responses judged, transitions = sessions",
		Assum: []string{"whatever an fs.FS module exposes is the module", "outside objects are recognisable by unique names, contents and mtimes"},
		Parts: func(tier string) []core.Part {
			return []core.Part{{Name: "paths", Build: c06BuildPaths}}
		},
	})
}
