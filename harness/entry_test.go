package verifharness

import (
	"context"
	"encoding/json"
	"fmt"
	"os"
	"strings"
	"testing"

	"github.com/gokrazy/rsync/rsynccmd"

	"github.com/gokrazy/rsync/verifharness/core"
	_ "github.com/gokrazy/rsync/verifharness/props"
)

// TestEntry is the single entry point of the harness binary (a test binary
// because testing/synctest needs a *testing.T). VCHECK_WORKER selects worker
// mode; VCHECK_ARGS carries the command line of ./run.
func TestEntry(t *testing.T) {
	core.T = t
	if cli := os.Getenv("VCHECK_CLI"); cli != "" {
		// act as the gokr-rsync command (cmd/gokr-rsync/rsync.go), with its default
		// restrictions: used by checks that need the real command in its own process
		var args []string
		if err := json.Unmarshal([]byte(cli), &args); err != nil {
			fmt.Fprintln(os.Stderr, err)
			os.Exit(2)
		}
		cmd := rsynccmd.Command("gokr-rsync", args...)
		cmd.Stdin, cmd.Stdout, cmd.Stderr = os.Stdin, os.Stdout, os.Stderr
		if _, err := cmd.Run(context.Background()); err != nil {
			fmt.Fprintln(os.Stderr, err)
			os.Exit(1)
		}
		os.Exit(0)
	}
	if spec := os.Getenv("VCHECK_WORKER"); spec != "" {
		core.WorkerMain(spec)
		return
	}
	args := strings.Fields(os.Getenv("VCHECK_ARGS"))
	if len(args) == 0 {
		fmt.Println("usage: ./run <Cnn> [quick|thorough] | ./run replay <file> | ./run list")
		os.Exit(2)
	}
	switch args[0] {
	case "list":
		for _, id := range core.IDs() {
			fmt.Println(id)
		}
		os.Exit(0)
	case "replay":
		if len(args) < 2 {
			os.Exit(2)
		}
		os.Exit(core.Replay(args[1]))
	default:
		tier := os.Getenv("VERIF_TIER")
		if len(args) > 1 {
			tier = args[1]
		}
		if tier != "thorough" {
			tier = "quick"
		}
		os.Exit(core.Check(args[0], tier))
	}
}
