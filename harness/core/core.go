// Package core is the driver/worker skeleton shared by all property checks:
// deterministic case enumeration, sharding over worker subprocesses with a
// journal (so that a crash of the code under test is attributed to one case),
// failure classification against KNOWN_FINDINGS.txt, replay files, evidence.
package core

import (
	"bufio"
	"bytes"
	"encoding/json"
	"fmt"
	"os"
	"os/exec"
	"path/filepath"
	"regexp"
	"runtime"
	"sort"
	"strconv"
	"strings"
	"sync"
	"sync/atomic"
	"syscall"
	"testing"
	"time"
)

// Failure describes one failing case.
type Failure struct {
	Symptom  string            `json:"symptom"`  // which clause of the property failed
	Features map[string]string `json:"features"` // causal features of the case (for known-finding matching)
	Detail   string            `json:"detail"`
}

// Result is what executing one case yields.
type Result struct {
	Case       string           `json:"case"`              // human-readable description of the case
	Fail       *Failure         `json:"fail,omitempty"`    // nil: property held on this case
	Outcome    string           `json:"outcome,omitempty"` // outcome class (for distinct_outcomes)
	Nontrivial bool             `json:"nontrivial,omitempty"`
	Counters   map[string]int64 `json:"counters,omitempty"` // states, transitions, executions, ...
	Inconcl    string           `json:"inconclusive,omitempty"`
}

// Part is one enumerated sub-space of a property's check.
type Part struct {
	Name string
	// Build constructs the (deterministic) case source inside a worker.
	Build func(tier string) Source
	// Par limits worker parallelism for this part (0 = number of CPUs).
	Par int
	// Isolate runs every case in a fresh worker process (for cases that may
	// kill or poison the process).
	Isolate bool
	// Race: run this part with the -race build of the worker binary.
	Race bool
	// Uid > 0: run the workers of this part with that uid/gid (non-root behaviour).
	Uid int
}

// Source enumerates cases by index.
type Source interface {
	Len() int
	Run(i int) Result
}

// FuncSource adapts a length and a function.
type FuncSource struct {
	N int
	F func(i int) Result
}

func (f FuncSource) Len() int         { return f.N }
func (f FuncSource) Run(i int) Result { return f.F(i) }

// Prop is one registered property check.
type Prop struct {
	ID    string
	Level string // evidence level
	Rule  string // how cases are enumerated, what counts as non-trivial
	Assum []string
	Parts func(tier string) []Part
}

var registry = map[string]*Prop{}

func Register(p *Prop) { registry[p.ID] = p }

func Lookup(id string) *Prop { return registry[id] }

func IDs() []string {
	var ids []string
	for id := range registry {
		ids = append(ids, id)
	}
	sort.Strings(ids)
	return ids
}

// ---------------------------------------------------------------- worker side

type workerSpec struct {
	Prop   string `json:"prop"`
	Tier   string `json:"tier"`
	Part   string `json:"part"`
	Shard  int    `json:"shard"`
	NShard int    `json:"nshard"`
	From   int    `json:"from"` // first index (global) to consider
	Only   int    `json:"only"` // if >=0 run only this index
	Uid    int    `json:"uid,omitempty"`
}

// WorkerMain runs in the worker subprocess. The protocol stream is fd 3.
func WorkerMain(specJSON string) {
	var spec workerSpec
	if err := json.Unmarshal([]byte(specJSON), &spec); err != nil {
		fmt.Fprintf(os.Stderr, "worker: bad spec: %v\n", err)
		os.Exit(3)
	}
	out := os.NewFile(3, "proto")
	w := bufio.NewWriter(out)
	hbMu.Lock()
	hbOut = w
	hbMu.Unlock()
	p := Lookup(spec.Prop)
	if p == nil {
		fmt.Fprintf(os.Stderr, "worker: unknown prop %q\n", spec.Prop)
		os.Exit(3)
	}
	var part *Part
	for _, pt := range p.Parts(spec.Tier) {
		if pt.Name == spec.Part {
			pt := pt
			part = &pt
		}
	}
	if part == nil {
		fmt.Fprintf(os.Stderr, "worker: unknown part %q\n", spec.Part)
		os.Exit(3)
	}
	src := part.Build(spec.Tier)
	n := src.Len()
	fmt.Fprintf(w, "N %d\n", n)
	w.Flush()
	for i := 0; i < n; i++ {
		if spec.Only >= 0 {
			if i != spec.Only {
				continue
			}
		} else if i < spec.From || i%spec.NShard != spec.Shard {
			continue
		}
		hbMu.Lock()
		fmt.Fprintf(w, "B %d\n", i)
		w.Flush()
		hbMu.Unlock()
		// run the case in its own goroutine: a panic of the code under test
		// must kill the process at once (no recovery by the testing package).
		ch := make(chan Result, 1)
		t0 := time.Now()
		go func() { ch <- src.Run(i) }()
		r := <-ch
		if r.Counters == nil {
			r.Counters = map[string]int64{}
		}
		r.Counters["_case_ms"] = time.Since(t0).Milliseconds()
		b, _ := json.Marshal(r)
		hbMu.Lock()
		fmt.Fprintf(w, "R %d %s\n", i, b)
		w.Flush()
		hbMu.Unlock()
	}
	fmt.Fprintf(w, "D\n")
	w.Flush()
	os.Exit(0)
}

var (
	hbMu   sync.Mutex
	hbOut  *bufio.Writer
	hbLast time.Time
)

// Heartbeat tells the driver that the current case is still making progress
// (long explorations call it after every execution). Rate limited.
func Heartbeat() {
	hbMu.Lock()
	defer hbMu.Unlock()
	if hbOut == nil || time.Since(hbLast) < 2*time.Second {
		return
	}
	hbLast = time.Now()
	fmt.Fprintf(hbOut, "H\n")
	hbOut.Flush()
}

// ---------------------------------------------------------------- driver side

type slowCase struct {
	ms   int64
	what string
}

type caseFail struct {
	Part string
	Idx  int
	Res  Result
}

type agg struct {
	mu          sync.Mutex
	evals       int64
	nontrivial  int64
	outcomes    map[string]int64
	counters    map[string]int64
	fails       []caseFail
	inconcl     int64
	inconclEx   []string
	samples     []any
	partTotals  map[string]int
	partDone    map[string]int
	crashes     int64
	maxCaseMs   int64
	slow        []slowCase
	exhaustive  bool
	deadlineHit bool
}

func (a *agg) add(part string, idx int, r Result) {
	a.mu.Lock()
	defer a.mu.Unlock()
	a.evals++
	a.partDone[part]++
	if r.Nontrivial {
		a.nontrivial++
	}
	if r.Outcome != "" {
		a.outcomes[r.Outcome]++
	}
	for k, v := range r.Counters {
		if k == "_case_ms" {
			if v > a.maxCaseMs {
				a.maxCaseMs = v
			}
			a.slow = append(a.slow, slowCase{v, part + "#" + strconv.Itoa(idx) + " " + oneLine(r.Case, 120)})
			sort.Slice(a.slow, func(i, j int) bool { return a.slow[i].ms > a.slow[j].ms })
			if len(a.slow) > 6 {
				a.slow = a.slow[:6]
			}
			continue
		}
		a.counters[k] += v
	}
	if r.Inconcl != "" {
		a.inconcl++
		if len(a.inconclEx) < 5 {
			a.inconclEx = append(a.inconclEx, part+"#"+strconv.Itoa(idx)+": "+r.Case+": "+r.Inconcl)
		}
	}
	if r.Fail != nil {
		a.fails = append(a.fails, caseFail{part, idx, r})
		if len(a.fails) >= maxFailures || hangsSeen.Load() >= maxHangs {
			abortRun.Store(true)
		}
	}
	// keep a handful of samples: the first few of each part, preferring nontrivial ones,
	// and the first case of every distinct outcome class
	firstOfClass := r.Outcome != "" && a.outcomes[r.Outcome] == 1 && len(a.samples) < 60
	if firstOfClass || len(a.samples) < 12 && (r.Nontrivial || a.partDone[part] <= 2) {
		a.samples = append(a.samples, map[string]any{"part": part, "index": idx, "case": r.Case, "outcome": r.Outcome})
	}
}

var panicFuncRe = regexp.MustCompile(`(?m)^(github\.com/gokrazy/rsync/[^\s(]+(?:\([^)]*\))?[^\s(]*)\(`)

// classifyCrash extracts the crash kind and the innermost repo frame from a
// worker's stderr tail.
func classifyCrash(stderr string, exitErr error) (kind, fn, msg string) {
	kind = "exit"
	if r := strings.Index(stderr, "WARNING: DATA RACE"); r >= 0 {
		rest := stderr[r:]
		kind, msg = "race", "WARNING: DATA RACE"
		for _, line := range strings.Split(rest, "\n") {
			line = strings.TrimSpace(line)
			if strings.HasPrefix(line, "github.com/gokrazy/rsync/") && !strings.Contains(line, "/verifharness") {
				fn = strings.TrimPrefix(line, "github.com/gokrazy/rsync/")
				if p := strings.LastIndex(fn, "("); p > 0 {
					fn = fn[:p]
				}
				break
			}
		}
		if fn == "" {
			fn = "harness"
		}
		if len(rest) > 3000 {
			rest = rest[:3000]
		}
		return kind, fn, msg + "\n" + rest
	}
	i := strings.LastIndex(stderr, "panic: ")
	j := strings.LastIndex(stderr, "fatal error: ")
	at := -1
	if i >= 0 {
		kind, at = "panic", i
	}
	if j >= 0 && j > i {
		kind, at = "fatal", j
	}
	if at >= 0 {
		rest := stderr[at:]
		if nl := strings.IndexByte(rest, '\n'); nl >= 0 {
			msg = rest[:nl]
		} else {
			msg = rest
		}
		for _, m := range panicFuncRe.FindAllStringSubmatch(rest, -1) {
			f := m[1]
			if strings.Contains(f, "/verifharness") {
				continue
			}
			fn = strings.TrimPrefix(f, "github.com/gokrazy/rsync/")
			break
		}
		if fn == "" {
			// crash entirely inside the harness or runtime
			if strings.Contains(rest, "verifharness") {
				fn = "harness"
			}
		}
	} else {
		msg = fmt.Sprintf("worker exited: %v", exitErr)
	}
	return
}

type ringBuf struct {
	mu  sync.Mutex
	buf []byte
	max int
}

func (r *ringBuf) Write(p []byte) (int, error) {
	r.mu.Lock()
	defer r.mu.Unlock()
	r.buf = append(r.buf, p...)
	if len(r.buf) > r.max {
		r.buf = r.buf[len(r.buf)-r.max:]
	}
	return len(p), nil
}
func (r *ringBuf) String() string { r.mu.Lock(); defer r.mu.Unlock(); return string(r.buf) }

// runWorker starts one worker and consumes its stream. It returns the index
// that was in flight when the worker died (or -1), and whether it finished.
func runWorker(bin string, spec workerSpec, a *agg, deadline time.Time, onN func(int)) (crashedAt int, done bool, stderrTail string, err error) {
	sj, _ := json.Marshal(spec)
	cmd := exec.Command(bin, "-test.run=^TestEntry$", "-test.timeout=0", "-test.count=1")
	cmd.Env = append(os.Environ(), "VCHECK_WORKER="+string(sj), "GORACE=halt_on_error=1")
	if spec.Uid > 0 {
		pub := filepath.Join(Scratch(), fmt.Sprintf("uid%d", spec.Uid))
		os.MkdirAll(pub, 0o777)
		os.Chmod(pub, 0o777|os.ModeSticky)
		cmd.Env = append(cmd.Env, "VERIF_SCRATCH="+pub, "HOME="+pub)
		cmd.SysProcAttr = &syscall.SysProcAttr{Credential: &syscall.Credential{Uid: uint32(spec.Uid), Gid: uint32(spec.Uid)}}
	}
	pr, pw, perr := os.Pipe()
	if perr != nil {
		return -1, false, "", perr
	}
	cmd.ExtraFiles = []*os.File{pw}
	rb := &ringBuf{max: 512 << 10}
	cmd.Stderr = rb
	cmd.Stdout = rb
	if err := cmd.Start(); err != nil {
		pw.Close()
		pr.Close()
		return -1, false, "", err
	}
	pw.Close()
	inflight := -1
	sc := bufio.NewScanner(pr)
	sc.Buffer(make([]byte, 1<<20), 64<<20)
	killed := false
	hung := false
	aborted := false
	var timer *time.Timer
	if !deadline.IsZero() {
		timer = time.AfterFunc(time.Until(deadline), func() { killed = true; cmd.Process.Kill() })
	}
	wd := time.AfterFunc(caseTimeout(), func() {
		hung = true
		// ask the Go runtime of the worker for its goroutine stacks first: they say where the case is stuck
		cmd.Process.Signal(syscall.SIGQUIT)
		time.AfterFunc(3*time.Second, func() { cmd.Process.Kill() })
	})
	defer wd.Stop()
	for sc.Scan() {
		wd.Reset(caseTimeout())
		line := sc.Text()
		switch {
		case strings.HasPrefix(line, "N "):
			n, _ := strconv.Atoi(line[2:])
			if onN != nil {
				onN(n)
			}
		case strings.HasPrefix(line, "B "):
			inflight, _ = strconv.Atoi(line[2:])
			if abortRun.Load() && spec.Only < 0 {
				aborted = true
				cmd.Process.Kill()
			}
		case strings.HasPrefix(line, "R "):
			rest := line[2:]
			sp := strings.IndexByte(rest, ' ')
			idx, _ := strconv.Atoi(rest[:sp])
			var r Result
			if e := json.Unmarshal([]byte(rest[sp+1:]), &r); e != nil {
				r = Result{Case: "?", Inconcl: "bad result json: " + e.Error()}
			}
			a.add(spec.Part, idx, r)
			inflight = -1
		case line == "D":
			done = true
		}
	}
	pr.Close()
	werr := cmd.Wait()
	if timer != nil {
		timer.Stop()
	}
	if killed || aborted {
		return -1, false, rb.String(), fmt.Errorf("deadline")
	}
	if hung && !done {
		return inflight, false, rb.String(), fmt.Errorf("hang")
	}
	if done {
		return -1, true, rb.String(), nil
	}
	return inflight, false, rb.String(), werr
}

// stuckFrames condenses a goroutine dump (SIGQUIT output) to the frames of the
// code under test and of the harness properties, plus the last lines.
func stuckFrames(dump string) string {
	var out []string
	for _, l := range strings.Split(dump, "\n") {
		if (strings.Contains(l, "gokrazy/rsync") && !strings.Contains(l, "verifharness/core")) && strings.Contains(l, "(") && !strings.HasPrefix(l, "\t") {
			out = append(out, strings.TrimSpace(l))
			if len(out) >= 40 {
				break
			}
		}
	}
	return strings.Join(out, " | ") + "\n" + lastLines(dump, 6)
}

// Finding is one line of KNOWN_FINDINGS.txt.
type Finding struct {
	Prop    string
	Class   string
	Where   map[string]string
	Text    string
	Matched int
}

func loadFindings(path string) []*Finding {
	b, err := os.ReadFile(path)
	if err != nil {
		return nil
	}
	var out []*Finding
	for _, line := range strings.Split(string(b), "\n") {
		line = strings.TrimSpace(line)
		if !strings.HasPrefix(line, "finding:") {
			continue
		}
		f := &Finding{Where: map[string]string{}}
		body := strings.TrimSpace(strings.TrimPrefix(line, "finding:"))
		if i := strings.Index(body, "#"); i >= 0 {
			f.Text = strings.TrimSpace(body[i+1:])
			body = body[:i]
		}
		for _, tok := range strings.Fields(body) {
			kv := strings.SplitN(tok, "=", 2)
			if len(kv) != 2 {
				continue
			}
			switch kv[0] {
			case "property":
				f.Prop = kv[1]
			case "class":
				f.Class = kv[1]
			case "where":
				for _, w := range strings.Split(kv[1], ",") {
					wkv := strings.SplitN(w, "=", 2)
					if len(wkv) == 2 {
						f.Where[wkv[0]] = wkv[1]
					}
				}
			}
		}
		out = append(out, f)
	}
	return out
}

func (f *Finding) matches(prop string, fl *Failure) bool {
	if f.Prop != prop || f.Class != fl.Symptom {
		return false
	}
	for k, v := range f.Where {
		if fl.Features[k] != v {
			return false
		}
	}
	return true
}

type replayFile struct {
	Property string  `json:"property"`
	Tier     string  `json:"tier"`
	Part     string  `json:"part"`
	Index    int     `json:"index"`
	Case     string  `json:"case"`
	Failure  Failure `json:"failure"`
	Reruns   string  `json:"reruns,omitempty"`
	How      string  `json:"how_to_replay"`
}

func home() string {
	if h := os.Getenv("VERIF_HOME"); h != "" {
		return h
	}
	return "/verif"
}

func Scratch() string {
	if s := os.Getenv("VERIF_SCRATCH"); s != "" {
		return s
	}
	return os.TempDir()
}

// Deadline budget (seconds) per tier; a run that hits it ends with exit 0 and exhaustive:false.
func budget(tier string) time.Duration {
	if v := os.Getenv("VERIF_BUDGET_S"); v != "" {
		if n, err := strconv.Atoi(v); err == nil {
			return time.Duration(n) * time.Second
		}
	}
	if tier == "thorough" {
		return 40 * time.Minute
	}
	return 8 * time.Minute
}

// hangsSeen counts hung cases in this run; once one was seen the run is
// abnormal anyway and the remaining cases get a short fuse so that the run
// still ends in reasonable time. Confirmation re-runs always use the full one.
var hangsSeen atomic.Int64

// abortRun is set once a run has collected so many failures (or hangs) that
// exploring the rest would only cost time: the run ends early with
// exhaustive:false and reports what it found.
var abortRun atomic.Bool

const maxHangs, maxFailures = 6, 400

var fullFuse atomic.Bool

func caseTimeout() time.Duration {
	d := 100 * time.Second
	if v := os.Getenv("VERIF_CASE_TIMEOUT_S"); v != "" {
		if n, err := strconv.Atoi(v); err == nil {
			d = time.Duration(n) * time.Second
		}
	}
	if hangsSeen.Load() > 0 && !fullFuse.Load() && d > 15*time.Second {
		d = 15 * time.Second
	}
	return d
}

// Check runs a property check end to end and returns the process exit code.
func Check(id, tier string) int {
	start := time.Now()
	p := Lookup(id)
	if p == nil {
		fmt.Fprintf(os.Stderr, "unknown property %q (have %v)\n", id, IDs())
		return 2
	}
	seed := 0
	if v := os.Getenv("VERIF_SEED"); v != "" {
		if n, err := strconv.Atoi(v); err == nil {
			seed = n
		}
	}
	bin, _ := os.Executable()
	raceBin := filepath.Join(filepath.Dir(bin), "vcheck.race.test")
	a := &agg{outcomes: map[string]int64{}, counters: map[string]int64{}, partTotals: map[string]int{}, partDone: map[string]int{}, exhaustive: true}
	deadline := start.Add(budget(tier))
	ncpu := runtime.NumCPU()
	var harnessErr []string
	var hmu sync.Mutex
	for _, part := range p.Parts(tier) {
		part := part
		wbin := bin
		if part.Race {
			if err := buildRace(raceBin); err != nil {
				fmt.Fprintf(os.Stderr, "race build failed: %v\n", err)
				return 2
			}
			wbin = raceBin
		}
		par := part.Par
		if par <= 0 || par > ncpu {
			par = ncpu
		}
		if part.Isolate {
			// one process per case: first learn N.
			n := -1
			_, _, _, _ = runWorker(wbin, workerSpec{Prop: id, Tier: tier, Part: part.Name, Shard: 0, NShard: 1, From: 1 << 30, Only: -1, Uid: part.Uid}, a, deadline, func(k int) { n = k })
			if n < 0 {
				harnessErr = append(harnessErr, "could not enumerate part "+part.Name)
				continue
			}
			a.partTotals[part.Name] = n
			sem := make(chan struct{}, par)
			var wg sync.WaitGroup
			for i := 0; i < n; i++ {
				if time.Now().After(deadline) {
					a.deadlineHit = true
					break
				}
				wg.Add(1)
				sem <- struct{}{}
				go func(i int) {
					defer wg.Done()
					defer func() { <-sem }()
					runShard(wbin, workerSpec{Prop: id, Tier: tier, Part: part.Name, Only: i, Uid: part.Uid}, a, deadline, nil, &harnessErr, &hmu)
				}(i)
			}
			wg.Wait()
			continue
		}
		var wg sync.WaitGroup
		var nmu sync.Mutex
		for s := 0; s < par; s++ {
			wg.Add(1)
			go func(s int) {
				defer wg.Done()
				spec := workerSpec{Prop: id, Tier: tier, Part: part.Name, Shard: (s + seed) % par, NShard: par, From: 0, Only: -1, Uid: part.Uid}
				runShard(wbin, spec, a, deadline, func(n int) {
					nmu.Lock()
					a.partTotals[part.Name] = n
					nmu.Unlock()
				}, &harnessErr, &hmu)
			}(s)
		}
		wg.Wait()
	}
	for name, tot := range a.partTotals {
		if a.partDone[name] < tot {
			a.exhaustive = false
		}
	}
	if a.deadlineHit {
		a.exhaustive = false
	}

	// ---- classify failures
	findings := loadFindings(filepath.Join(home(), "KNOWN_FINDINGS.txt"))
	sort.Slice(a.fails, func(i, j int) bool {
		if a.fails[i].Part != a.fails[j].Part {
			return a.fails[i].Part < a.fails[j].Part
		}
		return a.fails[i].Idx < a.fails[j].Idx
	})
	var violations []caseFail
	knownEx := map[*Finding]caseFail{}
	for _, cf := range a.fails {
		matched := false
		for _, f := range findings {
			if f.matches(id, cf.Res.Fail) {
				if f.Matched == 0 {
					knownEx[f] = cf
				}
				f.Matched++
				matched = true
				break
			}
		}
		if !matched {
			violations = append(violations, cf)
		}
	}
	for _, f := range findings {
		if f.Matched > 0 {
			ex := knownEx[f]
			fmt.Printf("KNOWN-FINDING: property=%s class=%s %s (%d cases this run, e.g. %s#%d %s)\n", id, f.Class, f.Text, f.Matched, ex.Part, ex.Idx, oneLine(ex.Res.Case, 160))
		}
	}
	// group violations by signature; confirm and report the first of each group
	type grp struct {
		first caseFail
		n     int
	}
	groups := map[string]*grp{}
	var order []string
	for _, v := range violations {
		sig := v.Res.Fail.Symptom + "|" + featStr(v.Res.Fail.Features)
		if v.Res.Fail.Symptom == "hang" {
			sig = "hang|" + v.Part // one confirmation per part is enough
		}
		g := groups[sig]
		if g == nil {
			g = &grp{first: v}
			groups[sig] = g
			order = append(order, sig)
		}
		g.n++
	}
	nviol := 0
	rdir := filepath.Join(home(), "replays", id)
	for gi, sig := range order {
		g := groups[sig]
		reruns := ""
		confirmed := true
		if gi < 8 {
			// re-run the single case 3x in fresh workers; it must fail again.
			okc, total := 0, 3
			if g.first.Res.Fail.Symptom == "hang" {
				total = 2
			}
			for k := 0; k < total; k++ {
				if rerunFails(bin, raceBin, p, tier, g.first) {
					okc++
				}
			}
			reruns = fmt.Sprintf("%d/%d re-runs failed again", okc, total)
			if okc == 0 {
				confirmed = false
			}
		}
		if !confirmed {
			fmt.Printf("UNREPRODUCED: property=%s part=%s index=%d %s: %s (%s) — not reported as violation\n", id, g.first.Part, g.first.Idx, g.first.Res.Fail.Symptom, oneLine(g.first.Res.Case, 200), reruns)
			hmu.Lock()
			harnessErr = append(harnessErr, "unreproduced failure: "+g.first.Part+"#"+strconv.Itoa(g.first.Idx))
			hmu.Unlock()
			continue
		}
		os.MkdirAll(rdir, 0o755)
		rf := replayFile{Property: id, Tier: tier, Part: g.first.Part, Index: g.first.Idx, Case: g.first.Res.Case, Failure: *g.first.Res.Fail, Reruns: reruns,
			How: fmt.Sprintf("./run replay %s", filepath.Join("replays", id, fmt.Sprintf("%s-%d.json", g.first.Part, g.first.Idx)))}
		path := filepath.Join(rdir, fmt.Sprintf("%s-%d.json", g.first.Part, g.first.Idx))
		b, _ := json.MarshalIndent(rf, "", " ")
		os.WriteFile(path, b, 0o644)
		fmt.Printf("VIOLATION property=%s replay=%s\n", id, path)
		fmt.Printf("  symptom=%s features=%s cases=%d first=%s#%d\n  case: %s\n  detail: %s\n", g.first.Res.Fail.Symptom, featStr(g.first.Res.Fail.Features), g.n, g.first.Part, g.first.Idx, oneLine(g.first.Res.Case, 400), oneLine(g.first.Res.Fail.Detail, 600))
		nviol++
	}

	// ---- evidence
	wall := time.Since(start).Seconds()
	cov := map[string]any{
		"evaluations":         a.evals,
		"distinct_nontrivial": a.nontrivial,
		"rule":                p.Rule,
		"samples":             a.samples,
		"exhaustive":          a.exhaustive,
		"distinct_outcomes":   len(a.outcomes),
		"outcome_histogram":   a.outcomes,
		"parts_total":         a.partTotals,
		"parts_done":          a.partDone,
		"failing_cases":       len(a.fails),
		"known_finding_cases": len(a.fails) - len(violations),
		"inconclusive":        a.inconcl,
		"worker_crashes":      a.crashes,
		"max_case_ms":         a.maxCaseMs,
		"slowest_cases":       slowList(a.slow),
	}
	if len(a.inconclEx) > 0 {
		cov["inconclusive_examples"] = a.inconclEx
	}
	if len(harnessErr) > 0 {
		cov["harness_errors"] = harnessErr
	}
	for k, v := range a.counters {
		cov[k] = v
	}
	if _, ok := cov["states"]; !ok {
		cov["states"] = a.evals
	}
	if _, ok := cov["transitions"]; !ok {
		cov["transitions"] = a.evals
	}
	if _, ok := cov["traces_validated_against_impl"]; !ok {
		cov["traces_validated_against_impl"] = a.evals
	}
	if len(a.outcomes) <= 1 && a.evals > 1 {
		cov["vacuous"] = true
	}
	if len(a.samples) == 0 {
		cov["samples"] = []any{"(no case executed)"}
	}
	ev := map[string]any{
		"property_id": id,
		"tier":        tier,
		"seed":        seed,
		"level":       p.Level,
		"coverage":    cov,
		"assumptions": p.Assum,
		"wall_s":      wall,
		"violations":  nviol,
	}
	os.MkdirAll(filepath.Join(home(), "evidence"), 0o755)
	eb, _ := json.MarshalIndent(ev, "", " ")
	os.WriteFile(filepath.Join(home(), "evidence", id+".json"), append(eb, '\n'), 0o644)
	fmt.Printf("%s %s: evaluations=%d nontrivial=%d outcomes=%d failing=%d (known=%d) violations=%d inconclusive=%d exhaustive=%v wall=%.1fs\n",
		id, tier, a.evals, a.nontrivial, len(a.outcomes), len(a.fails), len(a.fails)-len(violations), nviol, a.inconcl, a.exhaustive, wall)
	for k, v := range a.counters {
		fmt.Printf("  %s=%d", k, v)
	}
	if len(a.counters) > 0 {
		fmt.Println()
	}
	for _, e := range harnessErr {
		fmt.Printf("  harness: %s\n", e)
	}
	if nviol > 0 {
		return 1
	}
	return 0
}

func buildRace(out string) error {
	if _, err := os.Stat(out); err == nil {
		return nil
	}
	gobin := os.Getenv("VERIF_GO")
	if gobin == "" {
		gobin = "go"
	}
	cmd := exec.Command(gobin, "test", "-race", "-c", "-o", out, ".")
	cmd.Dir = filepath.Join(home(), "harness")
	var eb bytes.Buffer
	cmd.Stderr = &eb
	cmd.Stdout = &eb
	if err := cmd.Run(); err != nil {
		return fmt.Errorf("%v: %s", err, eb.String())
	}
	return nil
}

func runShard(bin string, spec workerSpec, a *agg, deadline time.Time, onN func(int), herr *[]string, hmu *sync.Mutex) {
	restarts := 0
	for {
		if time.Now().After(deadline) {
			a.mu.Lock()
			a.deadlineHit = true
			a.mu.Unlock()
			return
		}
		crashedAt, done, tail, err := runWorker(bin, spec, a, deadline, onN)
		if done {
			return
		}
		if err != nil && err.Error() == "deadline" {
			a.mu.Lock()
			a.deadlineHit = true
			a.mu.Unlock()
			return
		}
		if err != nil && err.Error() == "hang" && crashedAt >= 0 {
			to := caseTimeout()
			hangsSeen.Add(1)
			a.add(spec.Part, crashedAt, Result{Case: fmt.Sprintf("%s#%d (worker made no progress; use ./run replay to see the case)", spec.Part, crashedAt), Outcome: "hang", Nontrivial: true,
				Fail: &Failure{Symptom: "hang", Features: map[string]string{"part": spec.Part, "index": strconv.Itoa(crashedAt)}, Detail: fmt.Sprintf("the case made no progress for %v and its worker was killed; reported only if the same case hangs again in isolated re-runs with the full time limit\n%s", to, stuckFrames(tail))}})
			if spec.Only >= 0 {
				return
			}
			spec.From = crashedAt + 1
			continue
		}
		if crashedAt < 0 {
			hmu.Lock()
			*herr = append(*herr, fmt.Sprintf("worker %s shard %d died outside any case: %v: %s", spec.Part, spec.Shard, err, lastLines(tail, 6)))
			hmu.Unlock()
			return
		}
		kind, fn, msg := classifyCrash(tail, err)
		a.mu.Lock()
		a.crashes++
		a.mu.Unlock()
		if kind == "fatal" && strings.Contains(msg, "out of memory") {
			// resource exhaustion is outside every property's guarantee and depends on the machine
			a.add(spec.Part, crashedAt, Result{Case: fmt.Sprintf("%s#%d", spec.Part, crashedAt), Outcome: "oom", Inconcl: "worker ran out of memory: " + msg})
		} else if fn == "harness" {
			hmu.Lock()
			*herr = append(*herr, fmt.Sprintf("harness crash at %s#%d: %s", spec.Part, crashedAt, lastLines(tail, 12)))
			hmu.Unlock()
			a.add(spec.Part, crashedAt, Result{Case: fmt.Sprintf("%s#%d", spec.Part, crashedAt), Inconcl: "harness crash: " + msg})
		} else {
			a.add(spec.Part, crashedAt, Result{
				Case:    fmt.Sprintf("%s#%d (worker died; use ./run replay to see the case)", spec.Part, crashedAt),
				Outcome: "crash",
				Fail: &Failure{Symptom: "crash", Features: map[string]string{"kind": kind, "panic_func": fn},
					Detail: msg + "\n" + lastLines(tail, 25)},
				Nontrivial: true,
			})
		}
		if spec.Only >= 0 {
			return
		}
		spec.From = crashedAt + 1
		restarts++
		if restarts > 2000 {
			hmu.Lock()
			*herr = append(*herr, "too many worker restarts in "+spec.Part)
			hmu.Unlock()
			return
		}
	}
}

func rerunFails(bin, raceBin string, p *Prop, tier string, cf caseFail) bool {
	if cf.Res.Fail.Symptom == "hang" {
		fullFuse.Store(true)
		defer fullFuse.Store(false)
	}
	a := &agg{outcomes: map[string]int64{}, counters: map[string]int64{}, partTotals: map[string]int{}, partDone: map[string]int{}}
	wbin := bin
	uid := 0
	for _, pt := range p.Parts(tier) {
		if pt.Name == cf.Part && pt.Race {
			wbin = raceBin
		}
		if pt.Name == cf.Part {
			uid = pt.Uid
		}
	}
	var herr []string
	var hmu sync.Mutex
	runShard(wbin, workerSpec{Prop: p.ID, Tier: tier, Part: cf.Part, Only: cf.Idx, Uid: uid}, a, time.Now().Add(10*time.Minute), nil, &herr, &hmu)
	for _, f := range a.fails {
		if f.Res.Fail.Symptom == cf.Res.Fail.Symptom {
			return true
		}
	}
	return false
}

// Replay re-executes the single case recorded in a replay file.
func Replay(path string) int {
	b, err := os.ReadFile(path)
	if err != nil {
		fmt.Fprintln(os.Stderr, err)
		return 2
	}
	var rf replayFile
	if err := json.Unmarshal(b, &rf); err != nil {
		fmt.Fprintln(os.Stderr, err)
		return 2
	}
	p := Lookup(rf.Property)
	if p == nil {
		fmt.Fprintf(os.Stderr, "unknown property %q\n", rf.Property)
		return 2
	}
	bin, _ := os.Executable()
	raceBin := filepath.Join(filepath.Dir(bin), "vcheck.race.test")
	uid := 0
	for _, pt := range p.Parts(rf.Tier) {
		if pt.Name == rf.Part {
			uid = pt.Uid
		}
		if pt.Name == rf.Part && pt.Race {
			if err := buildRace(raceBin); err != nil {
				fmt.Fprintln(os.Stderr, err)
				return 2
			}
			bin = raceBin
		}
	}
	a := &agg{outcomes: map[string]int64{}, counters: map[string]int64{}, partTotals: map[string]int{}, partDone: map[string]int{}}
	var herr []string
	var hmu sync.Mutex
	runShard(bin, workerSpec{Prop: rf.Property, Tier: rf.Tier, Part: rf.Part, Only: rf.Index, Uid: uid}, a, time.Now().Add(20*time.Minute), nil, &herr, &hmu)
	for _, e := range herr {
		fmt.Println("harness:", e)
	}
	if len(a.fails) > 0 {
		f := a.fails[0]
		fmt.Printf("VIOLATION property=%s replay=%s\n  case: %s\n  symptom=%s features=%s\n  detail: %s\n", rf.Property, path, f.Res.Case, f.Res.Fail.Symptom, featStr(f.Res.Fail.Features), f.Res.Fail.Detail)
		return 1
	}
	fmt.Printf("replay of %s#%d passed (evaluations=%d)\n", rf.Part, rf.Index, a.evals)
	return 0
}

func slowList(s []slowCase) []string {
	var o []string
	for _, x := range s {
		o = append(o, fmt.Sprintf("%dms %s", x.ms, x.what))
	}
	return o
}

func featStr(m map[string]string) string {
	var ks []string
	for k := range m {
		ks = append(ks, k)
	}
	sort.Strings(ks)
	var sb strings.Builder
	for i, k := range ks {
		if i > 0 {
			sb.WriteByte(',')
		}
		sb.WriteString(k + "=" + m[k])
	}
	return sb.String()
}

func oneLine(s string, max int) string {
	s = strings.ReplaceAll(s, "\n", " | ")
	if len(s) > max {
		s = s[:max] + "…"
	}
	return s
}

func lastLines(s string, n int) string {
	lines := strings.Split(strings.TrimRight(s, "\n"), "\n")
	if len(lines) > n {
		lines = lines[len(lines)-n:]
	}
	return strings.Join(lines, "\n")
}

// Fail is a convenience constructor.
func Fail(symptom, detail string, feats ...string) *Failure {
	f := &Failure{Symptom: symptom, Detail: detail, Features: map[string]string{}}
	for i := 0; i+1 < len(feats); i += 2 {
		f.Features[feats[i]] = feats[i+1]
	}
	return f
}

// T is the *testing.T of the entry test (needed by testing/synctest).
var T *testing.T

// Note writes a line to the real stderr (fd 2) of the worker, where it ends
// up in the crash report if the process dies during the current case.
func Note(format string, a ...any) {
	syscall.Write(2, []byte(fmt.Sprintf(format, a...)+"\n"))
}
