// Package sched is the controlled transport scheduler: every Read and Write
// on the harness-owned transport parks its caller at a gate; inside a
// testing/synctest bubble synctest.Wait() tells the scheduler when every
// goroutine of the code under test is durably blocked, so the scheduler owns
// the order in which transport operations complete, how many bytes each one
// moves, and when the connection breaks. A deviation-bounded depth-first
// search over the choice sequences explores all schedules with at most d
// deviations from the default (run-to-completion, full transfers) schedule.
package sched

import (
	"errors"
	"fmt"
	"io"
	"sort"
	"strings"
	"sync"
	"sync/atomic"
	"testing"
	"testing/synctest"
)

// Capacity of a direction; Inf means unbounded, 0 means rendezvous (io.Pipe).
const Inf = 1 << 40

type opKind int

const (
	opRead opKind = iota
	opWrite
)

type op struct {
	conn  int // connection index
	ep    int // endpoint issuing the op: 0 client, 1 server
	kind  opKind
	buf   []byte
	done  int // bytes moved so far (writes)
	grant chan struct{}
	n     int
	err   error
	seq   int
}

type dirState struct {
	cap    int
	buf    []byte
	closed bool // writer closed: readers drain then see EOF
	gone   bool // reader gone (its process exited): writes fail
	total  int64
}

// World is one transport instance with two endpoints.
type World struct {
	mu               sync.Mutex
	pending          []*op
	conns            [][2]*dirState // per connection: 0: client->server, 1: server->client
	broken           bool           // connections broken: every op fails
	failedSinceBreak int            // failures delivered since the break
	seq              int
	running          atomic.Int64
	last             [3]int // (conn, ep, kind) of the last executed op, for canonical order
	// Observations, appended by the scheduler
	Log []string
}

func NewWorld(capC2S, capS2C int) *World {
	return &World{conns: [][2]*dirState{{{cap: capC2S}, {cap: capS2C}}}, last: [3]int{-1, -1, -1}}
}

// AddConn adds another connection and returns its index.
func (w *World) AddConn(capC2S, capS2C int) int {
	w.mu.Lock()
	defer w.mu.Unlock()
	w.conns = append(w.conns, [2]*dirState{{cap: capC2S}, {cap: capS2C}})
	return len(w.conns) - 1
}

// Endpoint is an io.ReadWriter for one side.
type Endpoint struct {
	w    *World
	conn int
	id   int
}

func (w *World) Client() *Endpoint        { return &Endpoint{w, 0, 0} }
func (w *World) Server() *Endpoint        { return &Endpoint{w, 0, 1} }
func (w *World) ClientOf(c int) *Endpoint { return &Endpoint{w, c, 0} }
func (w *World) ServerOf(c int) *Endpoint { return &Endpoint{w, c, 1} }

func (e *Endpoint) park(kind opKind, p []byte) (int, error) {
	o := &op{conn: e.conn, ep: e.id, kind: kind, buf: p, grant: make(chan struct{})}
	e.w.mu.Lock()
	if e.w.broken {
		e.w.mu.Unlock()
		if kind == opRead {
			return 0, io.ErrUnexpectedEOF
		}
		return 0, io.ErrClosedPipe
	}
	if kind == opWrite && e.w.conns[e.conn][e.id].gone {
		e.w.mu.Unlock()
		return 0, io.ErrClosedPipe
	}
	e.w.seq++
	o.seq = e.w.seq
	e.w.pending = append(e.w.pending, o)
	e.w.mu.Unlock()
	<-o.grant
	return o.n, o.err
}

func (e *Endpoint) Read(p []byte) (int, error) {
	if len(p) == 0 {
		return 0, nil
	}
	return e.park(opRead, p)
}

func (e *Endpoint) Write(p []byte) (int, error) {
	if len(p) == 0 {
		return 0, nil
	}
	return e.park(opWrite, p)
}

// CloseWrite closes the endpoint's outgoing direction (readers see EOF after draining).
func (e *Endpoint) CloseWrite() {
	e.w.mu.Lock()
	e.w.conns[e.conn][e.id].closed = true
	e.w.mu.Unlock()
}

// Close models the exit of the endpoint's process: its outgoing direction is
// closed (the peer reads EOF after draining) and its incoming direction loses
// its reader (the peer's pending and future writes fail, like EPIPE).
func (e *Endpoint) Close() {
	e.w.mu.Lock()
	e.w.conns[e.conn][e.id].closed = true
	e.w.conns[e.conn][1-e.id].gone = true
	e.w.mu.Unlock()
	// pending writes of the peer are not woken here: each becomes an enabled
	// "fails" step, so that the order in which goroutines notice is a
	// scheduler choice (one wake-up per step keeps executions deterministic).
}

// Go starts a main actor; the execution is finished when all main actors returned.
func (w *World) Go(f func()) {
	w.running.Add(1)
	go func() {
		defer w.running.Add(-1)
		f()
	}()
}

// alternative is one enabled (operation, answer) pair.
type alternative struct {
	o     *op
	bytes int  // bytes to move (reads: bytes returned; writes: bytes accepted)
	eof   bool // read returns EOF
	fail  bool // the operation fails (peer gone / connection broken)
	brk   bool // break the connection here
	cost  int
	descr string
}

func (w *World) outDir(o *op) *dirState {
	if o.kind == opWrite {
		return w.conns[o.conn][o.ep]
	}
	return w.conns[o.conn][1-o.ep]
}

// Options of an exploration.
type Options struct {
	Chunking bool // offer 1-byte and half transfers as deviations
	Faults   bool // offer "break the connection here" as a deviation at every point
}

// enabled computes the menu in canonical order.
func (w *World) enabled(opt Options) []alternative {
	w.mu.Lock()
	defer w.mu.Unlock()
	ops := append([]*op{}, w.pending...)
	sort.SliceStable(ops, func(i, j int) bool {
		ai := ops[i].conn == w.last[0] && ops[i].ep == w.last[1] && int(ops[i].kind) == w.last[2]
		aj := ops[j].conn == w.last[0] && ops[j].ep == w.last[1] && int(ops[j].kind) == w.last[2]
		if ai != aj {
			return ai
		}
		if ops[i].conn != ops[j].conn {
			return ops[i].conn < ops[j].conn
		}
		if ops[i].ep != ops[j].ep {
			return ops[i].ep < ops[j].ep
		}
		if ops[i].kind != ops[j].kind {
			return ops[i].kind < ops[j].kind
		}
		return ops[i].seq < ops[j].seq
	})
	var alts []alternative
	first := true
	for _, o := range ops {
		d := w.outDir(o)
		var avail int
		var eof bool
		if w.broken || (o.kind == opWrite && d.gone) {
			base := 0
			if !first {
				base = 1
				if w.broken && w.failedSinceBreak == 0 {
					// which parked operation notices the broken connection first is not a
					// further deviation: every order of the first failure is explored
					base = -1
				}
			}
			first = false
			alts = append(alts, alternative{o: o, fail: true, cost: base, descr: fmt.Sprintf("%d:%s.%s:FAIL", o.conn, []string{"client", "server"}[o.ep], []string{"read", "write"}[o.kind])})
			continue
		}
		if o.kind == opRead {
			switch {
			case len(d.buf) > 0:
				avail = min(len(d.buf), len(o.buf))
			case d.cap == 0:
				// rendezvous: a pending write on the same direction supplies the bytes
				for _, x := range ops {
					if x.kind == opWrite && w.outDir(x) == d {
						avail = min(len(x.buf)-x.done, len(o.buf))
						break
					}
				}
				if avail == 0 && d.closed {
					eof = true
				}
			case d.closed:
				eof = true
			}
		} else {
			if d.cap == 0 {
				continue // completes through the reader's step
			}
			avail = min(d.cap-len(d.buf), len(o.buf)-o.done)
			if d.cap >= Inf {
				avail = len(o.buf) - o.done
			}
		}
		if avail <= 0 && !eof {
			continue
		}
		base := 0
		if !first {
			base = 1 // switching away from the first enabled operation is a preemption
		}
		first = false
		name := fmt.Sprintf("%d:%s.%s", o.conn, []string{"client", "server"}[o.ep], []string{"read", "write"}[o.kind])
		if eof {
			alts = append(alts, alternative{o: o, eof: true, cost: base, descr: name + ":EOF"})
			continue
		}
		alts = append(alts, alternative{o: o, bytes: avail, cost: base, descr: fmt.Sprintf("%s:%d", name, avail)})
		if opt.Chunking && avail > 1 {
			alts = append(alts, alternative{o: o, bytes: 1, cost: base + 1, descr: name + ":1"})
			if avail > 3 {
				alts = append(alts, alternative{o: o, bytes: avail / 2, cost: base + 1, descr: fmt.Sprintf("%s:%d", name, avail/2)})
			}
		}
	}
	if opt.Faults && len(alts) > 0 && !w.broken {
		alts = append(alts, alternative{brk: true, cost: 1, descr: "break"})
	}
	return alts
}

var errBroken = errors.New("connection broken (injected)")

// apply executes one alternative.
func (w *World) apply(a alternative) {
	w.mu.Lock()
	if a.brk {
		// the connection breaks: pending operations fail one per step from now on
		w.broken = true
		w.mu.Unlock()
		return
	}
	if a.fail {
		o := a.o
		if w.broken {
			w.failedSinceBreak++
		}
		w.last = [3]int{o.conn, o.ep, int(o.kind)}
		for i, p := range w.pending {
			if p == o {
				w.pending = append(w.pending[:i], w.pending[i+1:]...)
				break
			}
		}
		w.mu.Unlock()
		if o.kind == opRead {
			o.n, o.err = 0, io.ErrUnexpectedEOF
		} else {
			o.n, o.err = o.done, io.ErrClosedPipe
		}
		close(o.grant)
		return
	}
	o := a.o
	d := w.outDir(o)
	w.last = [3]int{o.conn, o.ep, int(o.kind)}
	remove := func(x *op) {
		for i, p := range w.pending {
			if p == x {
				w.pending = append(w.pending[:i], w.pending[i+1:]...)
				return
			}
		}
	}
	var wake []*op
	switch {
	case a.eof:
		o.n, o.err = 0, io.EOF
		remove(o)
		wake = append(wake, o)
	case o.kind == opRead:
		if len(d.buf) > 0 {
			n := copy(o.buf[:a.bytes], d.buf)
			d.buf = d.buf[n:]
			o.n = n
		} else {
			// rendezvous with the first pending writer of this direction
			for _, x := range w.pending {
				if x.kind == opWrite && w.outDir(x) == d {
					n := copy(o.buf[:a.bytes], x.buf[x.done:])
					x.done += n
					d.total += int64(n)
					o.n = n
					if x.done == len(x.buf) {
						x.n = x.done
						remove(x)
						wake = append(wake, x)
					}
					break
				}
			}
		}
		remove(o)
		wake = append(wake, o)
	default:
		d.buf = append(d.buf, o.buf[o.done:o.done+a.bytes]...)
		o.done += a.bytes
		d.total += int64(a.bytes)
		if o.done == len(o.buf) {
			o.n = o.done
			remove(o)
			wake = append(wake, o)
		}
	}
	w.mu.Unlock()
	for _, x := range wake {
		close(x.grant)
	}
}

// Break ends an execution: the connection is broken and every parked
// operation fails at once (the outcome has been decided by then).
func (w *World) Break() {
	w.mu.Lock()
	w.broken = true
	ps := w.pending
	w.pending = nil
	w.mu.Unlock()
	for _, o := range ps {
		if o.kind == opRead {
			o.n, o.err = 0, io.ErrUnexpectedEOF
		} else {
			o.n, o.err = o.done, io.ErrClosedPipe
		}
		close(o.grant)
	}
}

// Pending describes the parked operations (deadlock reports).
func (w *World) PendingTable() string {
	w.mu.Lock()
	defer w.mu.Unlock()
	s := ""
	for _, o := range w.pending {
		s += fmt.Sprintf("[conn %d %s %s %d/%d bytes] ", o.conn, []string{"client", "server"}[o.ep], []string{"read", "write"}[o.kind], o.done, len(o.buf))
	}
	for i, c := range w.conns {
		s += fmt.Sprintf("conn %d buffers: c2s=%d(cap %d, closed %v) s2c=%d(cap %d, closed %v) ", i, len(c[0].buf), c[0].cap, c[0].closed, len(c[1].buf), c[1].cap, c[1].closed)
	}
	return s
}

func (w *World) Transferred() (c2s, s2c int64) { return w.conns[0][0].total, w.conns[0][1].total }

// ---------------------------------------------------------------- executions

// Scenario sets up one execution inside the bubble: it starts the main actors
// with w.Go and returns a function that yields the outcome string (compared
// across schedules) once all actors have finished or the run was ended.
type Scenario struct {
	Name      string
	CapC2S    int
	CapS2C    int
	Opt       Options
	Start     func(w *World) (outcome func(finished bool) string)
	Invariant func(w *World, point int) string // non-empty: violation
	MaxPoints int
}

// Exec is the record of one execution.
type Exec struct {
	Choices   []int
	NAlts     []int   // number of alternatives at each point
	Costs     [][]int // cost of each alternative at each point
	Descr     []string
	Deadlock  bool
	Finished  bool
	Outcome   string
	InvFail   string
	InvPoint  int
	Pending   string
	Truncated bool
}

// RunOne runs the scenario once with the given choice prefix (choice 0 afterwards).
func RunOne(t *testing.T, sc *Scenario, prefix []int) (x *Exec) {
	x = &Exec{InvPoint: -1}
	defer func() {
		// Goroutines of the code under test that stay blocked on something
		// the harness cannot break (e.g. an internal io.Pipe) make synctest
		// panic when the bubble's main goroutine returns. That is a deadlock
		// verdict, not a harness failure; the blocked goroutines are leaked.
		if r := recover(); r != nil {
			msg := fmt.Sprint(r)
			if strings.Contains(msg, "deadlock") {
				x.Deadlock = true
				x.Finished = false
				x.Pending += " [synctest: " + msg + "]"
				return
			}
			panic(r)
		}
	}()
	synctest.Test(t, func(t *testing.T) {
		w := NewWorld(sc.CapC2S, sc.CapS2C)
		outcome := sc.Start(w)
		maxPts := sc.MaxPoints
		if maxPts == 0 {
			maxPts = 200000
		}
		for point := 0; ; point++ {
			synctest.Wait()
			if sc.Invariant != nil && x.InvFail == "" {
				if msg := sc.Invariant(w, point); msg != "" {
					x.InvFail, x.InvPoint = msg, point
				}
			}
			if w.running.Load() == 0 {
				x.Finished = true
				break
			}
			alts := w.enabled(sc.Opt)
			if len(alts) == 0 {
				x.Deadlock = true
				x.Pending = w.PendingTable()
				break
			}
			if point >= maxPts {
				x.Truncated = true
				break
			}
			choice := 0
			if point < len(prefix) {
				choice = prefix[point]
				if choice >= len(alts) {
					panic(fmt.Sprintf("sched: replay diverged at point %d: choice %d of %d alternatives", point, choice, len(alts)))
				}
			}
			costs := make([]int, len(alts))
			for i, a := range alts {
				costs[i] = a.cost
			}
			x.Choices = append(x.Choices, choice)
			x.NAlts = append(x.NAlts, len(alts))
			x.Costs = append(x.Costs, costs)
			x.Descr = append(x.Descr, alts[choice].descr)
			w.apply(alts[choice])
		}
		// end of execution: break the world so that every goroutine left behind returns
		w.Break()
		synctest.Wait()
		x.Outcome = outcome(x.Finished)
		w.Break()
		synctest.Wait()
	})
	return x
}

// Progress, if set, is called after every execution (heartbeat).
var Progress func()

// Stats of an exploration.
type Stats struct {
	Executions  int
	Points      int64
	Deadlocks   int
	InvFails    int
	Outcomes    map[string]int
	MaxPoints   int
	Truncated   int
	FirstBad    *Exec
	FirstBadWhy string
	Capped      bool
}

// Explore runs the deviation-bounded DFS. check is called for every
// execution; a non-empty return is a violation.
func Explore(t *testing.T, sc *Scenario, bound int, maxExec int, check func(x *Exec) string) *Stats {
	return ExploreShard(t, sc, bound, maxExec, 0, 1, check)
}

// ExploreShard explores the part of the DFS tree whose first deviation lies
// at a point i with i % nshards == shard (every shard runs the deviation-free
// execution itself), so that one scenario can be spread over worker processes.
func ExploreShard(t *testing.T, sc *Scenario, bound int, maxExec int, shard, nshards int, check func(x *Exec) string) *Stats {
	st := &Stats{Outcomes: map[string]int{}}
	var rec func(prefix []int, spent int)
	rec = func(prefix []int, spent int) {
		if st.Capped {
			return
		}
		if maxExec > 0 && st.Executions >= maxExec {
			st.Capped = true
			return
		}
		x := RunOne(t, sc, prefix)
		if Progress != nil {
			Progress()
		}
		st.Executions++
		st.Points += int64(len(x.Choices))
		if len(x.Choices) > st.MaxPoints {
			st.MaxPoints = len(x.Choices)
		}
		if x.Truncated {
			st.Truncated++
		}
		st.Outcomes[x.Outcome]++
		why := ""
		switch {
		case x.Deadlock:
			st.Deadlocks++
			why = "deadlock: no enabled transport operation but the session has not finished; " + x.Pending
		case x.InvFail != "":
			st.InvFails++
			why = fmt.Sprintf("invariant violated at point %d: %s", x.InvPoint, x.InvFail)
		default:
			why = check(x)
		}
		if why != "" && st.FirstBad == nil {
			st.FirstBad, st.FirstBadWhy = x, why
		}
		for i := len(prefix); i < len(x.Choices); i++ {
			if len(prefix) == 0 && nshards > 1 && i%nshards != shard {
				continue
			}
			for alt := 1; alt < x.NAlts[i]; alt++ {
				c := x.Costs[i][alt]
				if c == 0 {
					c = 1
				}
				if c < 0 {
					c = 0 // free alternative
				}
				if spent+c > bound {
					continue
				}
				np := append(append([]int{}, x.Choices[:i]...), alt)
				rec(np, spent+c)
			}
		}
	}
	rec(nil, 0)
	return st
}
