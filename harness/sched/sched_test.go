package sched

import (
	"context"
	"fmt"
	"io"
	"os"
	"path/filepath"
	"testing"
	"time"

	"github.com/gokrazy/rsync/rsyncclient"
	"github.com/gokrazy/rsync/rsyncd"
)

type nl struct{}

func (nl) Printf(string, ...any)    {}
func (nl) Output(int, string) error { return nil }

func TestExplore(t *testing.T) {
	base := t.TempDir()
	n := 0
	sc := &Scenario{Name: "pull", CapC2S: Inf, CapS2C: Inf, Opt: Options{},
		Start: func(w *World) func(bool) string {
			n++
			dir := filepath.Join(base, fmt.Sprint(n))
			os.MkdirAll(filepath.Join(dir, "src"), 0o755)
			os.WriteFile(filepath.Join(dir, "src", "a"), []byte("hello"), 0o644)
			os.WriteFile(filepath.Join(dir, "src", "b"), []byte("world"), 0o644)
			client, _ := rsyncclient.New([]string{"-rt"}, rsyncclient.DontRestrict(), rsyncclient.WithStderr(io.Discard))
			srv, _ := rsyncd.NewServer(nil, rsyncd.DontRestrict(), rsyncd.WithStderr(io.Discard), rsyncd.WithLogger(nl{}))
			var cerr, serr error
			w.Go(func() {
				_, cerr = client.Run(context.Background(), w.Client(), []string{filepath.Join(dir, "dst")})
				w.Client().CloseWrite()
			})
			sargs := client.ServerCommandOptions(filepath.Join(dir, "src") + "/")
			w.Go(func() {
				serr = srv.HandleConnArgs(context.Background(), rsyncd.NewConnection(w.Server(), w.Server(), "x"), nil, sargs)
				w.Server().CloseWrite()
			})
			return func(fin bool) string {
				b, _ := os.ReadFile(filepath.Join(dir, "dst", "a"))
				return fmt.Sprintf("fin=%v cerr=%v serr=%v a=%q", fin, cerr, serr, b)
			}
		}}
	t0 := time.Now()
	done := make(chan *Stats)
	go func() { done <- Explore(t, sc, 1, 0, func(x *Exec) string { return "" }) }()
	st := <-done
	t.Logf("executions=%d points=%d maxpoints=%d deadlocks=%d outcomes=%v in %v", st.Executions, st.Points, st.MaxPoints, st.Deadlocks, st.Outcomes, time.Since(t0))
	for _, caps := range [][2]int{{0, 0}, {0, Inf}, {1, 1}, {7, 7}} {
		sc.CapC2S, sc.CapS2C = caps[0], caps[1]
		sc.Opt.Chunking = true
		t0 = time.Now()
		st = Explore(t, sc, 1, 0, func(x *Exec) string { return "" })
		t.Logf("caps=%v executions=%d points=%d maxpoints=%d deadlocks=%d outcomes=%v in %v first=%v", caps, st.Executions, st.Points, st.MaxPoints, st.Deadlocks, st.Outcomes, time.Since(t0), st.FirstBadWhy)
	}
}
