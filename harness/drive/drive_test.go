package drive

import (
	"os"
	"path/filepath"
	"testing"

	tm "github.com/gokrazy/rsync/verifharness/treemodel"
)

func TestArrangements(t *testing.T) {
	Quiet()
	for _, arr := range Arrangements {
		base := t.TempDir()
		src := tm.Tree{tm.D("d", 0o755, tm.Past), tm.File("d/x", []byte("hello"), 0o644, tm.Past), tm.File("a", []byte("world"), 0o600, tm.Past), tm.L("lnk", "a")}
		if err := src.Materialise(filepath.Join(base, "src")); err != nil {
			t.Fatal(err)
		}
		dst := filepath.Join(base, "dst")
		os.MkdirAll(dst, 0o755)
		o := Run(Job{Arr: arr, Args: []string{"-a"}, Base: base, Sources: []string{"src/"}, Dest: dst, Record: true})
		if !o.OK() {
			t.Errorf("%s: %s\n%s", arr, o.ErrString(), o.Stderr)
			continue
		}
		got, _ := tm.Snapshot(dst, true)
		want, _ := tm.Snapshot(filepath.Join(base, "src"), true)
		f := tm.Fields{Mode: true, Mtime: true}
		if d := tm.Diff(want, got, f); len(d) > 0 {
			t.Errorf("%s: diff %v", arr, d)
		}
		t.Logf("%s ok c2s=%d s2c=%d", arr, len(o.C2S), len(o.S2C))
	}
}
