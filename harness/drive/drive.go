// Package drive runs real gokrazy/rsync sessions in-process in the
// arrangements the properties quantify over, over a harness-owned transport
// that records both directions.
package drive

import (
	"bytes"
	"context"
	"fmt"
	"io"
	"os"
	"path/filepath"
	"strings"
	"sync"

	"github.com/gokrazy/rsync/rsyncclient"
	"github.com/gokrazy/rsync/rsynccmd"
	"github.com/gokrazy/rsync/rsyncd"
)

// ---------------------------------------------------------------- transport

// Pipe is an unbounded in-memory byte queue (one direction).
type Pipe struct {
	mu     sync.Mutex
	cond   *sync.Cond
	buf    []byte
	closed bool
	Log    *bytes.Buffer // everything ever written (optional)
}

func NewPipe(record bool) *Pipe {
	p := &Pipe{}
	p.cond = sync.NewCond(&p.mu)
	if record {
		p.Log = &bytes.Buffer{}
	}
	return p
}

func (p *Pipe) Write(b []byte) (int, error) {
	p.mu.Lock()
	defer p.mu.Unlock()
	if p.closed {
		return 0, io.ErrClosedPipe
	}
	p.buf = append(p.buf, b...)
	if p.Log != nil {
		p.Log.Write(b)
	}
	p.cond.Broadcast()
	return len(b), nil
}

func (p *Pipe) Read(b []byte) (int, error) {
	p.mu.Lock()
	defer p.mu.Unlock()
	for len(p.buf) == 0 {
		if p.closed {
			return 0, io.EOF
		}
		p.cond.Wait()
	}
	n := copy(b, p.buf)
	p.buf = p.buf[n:]
	return n, nil
}

func (p *Pipe) Close() error {
	p.mu.Lock()
	defer p.mu.Unlock()
	p.closed = true
	p.cond.Broadcast()
	return nil
}

type RW struct {
	io.Reader
	io.Writer
}

// ---------------------------------------------------------------- sessions

// Arrangement names.
const (
	DaemonPull = "daemon-pull" // client receives from a daemon module
	DaemonPush = "daemon-push" // client sends to a writable daemon module
	Local      = "local"       // rsync SRC... DEST, server in-process over io.Pipe
	LibPull    = "lib-pull"    // rsyncclient.Run (receiver) <-> Server.HandleConnArgs
	LibPush    = "lib-push"    // rsyncclient.Run (sender)   <-> Server.HandleConnArgs
)

var Arrangements = []string{DaemonPull, DaemonPush, Local, LibPull, LibPush}

// Job describes one sync.
type Job struct {
	Arr     string
	Args    []string // option arguments (no paths)
	Base    string   // directory containing the source roots; module root for daemon-pull
	Sources []string // source arguments relative to Base, e.g. "src/", "src", "src/a"
	Dest    string   // absolute destination directory
	Record  bool     // record both directions
	// SubdirPull: in daemon-pull keep Base as module root even for "X/" sources.
	SubdirPull bool
}

// Outcome of a session.
type Outcome struct {
	ClientErr error
	ServerErr error
	C2S, S2C  []byte // recorded streams when Job.Record
	Stderr    string
}

func (o *Outcome) OK() bool { return o.ClientErr == nil && o.ServerErr == nil }

func (o *Outcome) ErrString() string {
	return fmt.Sprintf("client=%v server=%v", o.ClientErr, o.ServerErr)
}

type nullLogger struct{}

func (nullLogger) Printf(string, ...any)    {}
func (nullLogger) Output(int, string) error { return nil }

type lockedBuf struct {
	mu sync.Mutex
	b  bytes.Buffer
}

func (l *lockedBuf) Write(p []byte) (int, error) {
	l.mu.Lock()
	defer l.mu.Unlock()
	if l.b.Len() < 1<<20 {
		l.b.Write(p)
	}
	return len(p), nil
}
func (l *lockedBuf) String() string { l.mu.Lock(); defer l.mu.Unlock(); return l.b.String() }

// Run executes the job and waits for both ends.
func Run(j Job) *Outcome {
	out := &Outcome{}
	stderr := &lockedBuf{}
	defer func() { out.Stderr = stderr.String() }()
	ctx := context.Background()
	switch j.Arr {
	case Local:
		args := append([]string{}, j.Args...)
		for _, s := range j.Sources {
			args = append(args, joinKeepSlash(j.Base, s))
		}
		args = append(args, j.Dest)
		cmd := rsynccmd.Command("rsync", args...)
		cmd.Stdout = io.Discard
		cmd.Stderr = stderr
		cmd.DontRestrict = true
		_, out.ClientErr = cmd.Run(ctx)
		return out

	case DaemonPull, DaemonPush, LibPull, LibPush:
		c2s, s2c := NewPipe(j.Record), NewPipe(j.Record)
		clientConn := &RW{Reader: s2c, Writer: c2s}
		var copts []rsyncclient.Option
		copts = append(copts, rsyncclient.DontRestrict(), rsyncclient.WithStderr(stderr))
		sending := j.Arr == DaemonPush || j.Arr == LibPush
		if sending {
			copts = append(copts, rsyncclient.WithSender())
		}
		client, err := rsyncclient.New(j.Args, copts...)
		if err != nil {
			out.ClientErr = fmt.Errorf("rsyncclient.New: %w", err)
			return out
		}
		var wg sync.WaitGroup
		wg.Add(1)
		switch j.Arr {
		case DaemonPull:
			if len(j.Sources) != 1 {
				// the library daemon client takes one remote path
				out.ClientErr = fmt.Errorf("harness: daemon-pull takes one source")
				return out
			}
			// "X/" (contents of directory X): X is the module root and the
			// whole module is requested; otherwise Base is the module root.
			modPath, remote := j.Base, "m/"+j.Sources[0]
			if strings.HasSuffix(j.Sources[0], "/") && !j.SubdirPull {
				modPath, remote = filepath.Join(j.Base, j.Sources[0]), "m/"
			}
			srv, err := rsyncd.NewServer([]rsyncd.Module{{Name: "m", Path: modPath}}, rsyncd.DontRestrict(), rsyncd.WithStderr(stderr), rsyncd.WithLogger(nullLogger{}))
			if err != nil {
				out.ServerErr = err
				return out
			}
			go func() {
				defer wg.Done()
				out.ServerErr = srv.HandleDaemonConn(ctx, rsyncd.NewConnection(c2s, s2c, "127.0.0.1:1"))
				s2c.Close()
			}()
			_, out.ClientErr = client.RunDaemon(ctx, clientConn, remote, []string{j.Dest})
		case DaemonPush:
			srv, err := rsyncd.NewServer([]rsyncd.Module{{Name: "w", Path: j.Dest, Writable: true}}, rsyncd.DontRestrict(), rsyncd.WithStderr(stderr), rsyncd.WithLogger(nullLogger{}))
			if err != nil {
				out.ServerErr = err
				return out
			}
			go func() {
				defer wg.Done()
				out.ServerErr = srv.HandleDaemonConn(ctx, rsyncd.NewConnection(c2s, s2c, "127.0.0.1:1"))
				s2c.Close()
			}()
			var paths []string
			for _, s := range j.Sources {
				paths = append(paths, joinKeepSlash(j.Base, s))
			}
			_, out.ClientErr = client.RunDaemon(ctx, clientConn, "w/", paths)
		case LibPull:
			srv, err := rsyncd.NewServer(nil, rsyncd.DontRestrict(), rsyncd.WithStderr(stderr), rsyncd.WithLogger(nullLogger{}))
			if err != nil {
				out.ServerErr = err
				return out
			}
			var paths []string
			for _, s := range j.Sources {
				paths = append(paths, joinKeepSlash(j.Base, s))
			}
			sargs := client.ServerCommandOptions(paths[0], paths[1:]...)
			go func() {
				defer wg.Done()
				out.ServerErr = srv.HandleConnArgs(ctx, rsyncd.NewConnection(c2s, s2c, "<lib>"), nil, sargs)
				s2c.Close()
			}()
			_, out.ClientErr = client.Run(ctx, clientConn, []string{j.Dest})
		case LibPush:
			srv, err := rsyncd.NewServer(nil, rsyncd.DontRestrict(), rsyncd.WithStderr(stderr), rsyncd.WithLogger(nullLogger{}))
			if err != nil {
				out.ServerErr = err
				return out
			}
			sargs := client.ServerCommandOptions(j.Dest)
			go func() {
				defer wg.Done()
				out.ServerErr = srv.HandleConnArgs(ctx, rsyncd.NewConnection(c2s, s2c, "<lib>"), nil, sargs)
				s2c.Close()
			}()
			var paths []string
			for _, s := range j.Sources {
				paths = append(paths, joinKeepSlash(j.Base, s))
			}
			_, out.ClientErr = client.Run(ctx, clientConn, paths)
		}
		c2s.Close()
		wg.Wait()
		if j.Record {
			out.C2S = c2s.Log.Bytes()
			out.S2C = s2c.Log.Bytes()
		}
		return out
	}
	out.ClientErr = fmt.Errorf("harness: unknown arrangement %q", j.Arr)
	return out
}

func joinKeepSlash(base, rel string) string {
	p := filepath.Join(base, rel)
	if strings.HasSuffix(rel, "/") {
		p += "/"
	}
	return p
}

// Quiet silences os.Stderr (the Go variable; runtime panics still reach fd 2)
// so that in-process servers started by the code under test do not flood the
// worker's stderr.
func Quiet() {
	if f, err := os.OpenFile(os.DevNull, os.O_WRONLY, 0); err == nil {
		os.Stderr = f
	}
}
