// Package peer contains the scripted reference peers (sender and
// generator/receiver) built on refproto, and helpers that start the real
// gokrazy/rsync endpoints (sender.Transfer, receiver.Transfer) against them.
package peer

import (
	"fmt"
	"io"
	"os"
	"sync"
	"time"

	"github.com/gokrazy/rsync/internal/progress"
	"github.com/gokrazy/rsync/internal/receiver"
	"github.com/gokrazy/rsync/internal/rsyncopts"
	"github.com/gokrazy/rsync/internal/rsyncos"
	"github.com/gokrazy/rsync/internal/rsyncwire"
	"github.com/gokrazy/rsync/internal/sender"
	"github.com/gokrazy/rsync/verifharness/drive"
	rp "github.com/gokrazy/rsync/verifharness/refproto"
)

type nullLogger struct{}

func (nullLogger) Printf(string, ...any)    {}
func (nullLogger) Output(int, string) error { return nil }

// ---------------------------------------------------------------- scripted sender

// Request is what a generator sent for one file.
type Request struct {
	Idx  int32
	Sums rp.Sums
}

// Reply is what the scripted sender answers.
type Reply struct {
	Idx     int32
	Head    rp.SumHead
	Toks    []rp.Token
	Trailer [16]byte
	Raw     []byte // if non-nil, sent instead of the structured reply
	Skip    bool   // answer nothing for this request (like a vanished file)
}

type SenderScript struct {
	List  *rp.FList
	LOpts rp.ListOpts
	Seed  int32
	// Data holds, per *sorted* index, the content the default reply serves.
	Data map[int32][]byte
	// Reply overrides the default whole-file reply.
	Reply func(req Request) *Reply
	// DryRun: requests carry no sums, replies are the bare index.
	DryRun bool
	// Stats: write the three statistics longs after the last phase (server-sender role).
	Stats bool
	// StatsSize: the "total size" statistic to send (default 3).
	StatsSize int64
	// RawList, if set, is sent instead of encoding List.
	RawList []byte
	// HalfClose: close the sending direction once everything has been sent
	// (before waiting for the goodbye), so that a receiver left waiting for
	// bytes a damaged stream announced sees EOF instead of hanging.
	HalfClose bool
	// BeforeGoodbye is set by the role wrappers to implement HalfClose.
	BeforeGoodbye func()
	// OnRequest is called when a request arrives, before the reply is built.
	OnRequest func(req Request)
	// Unsolicited: file data pushed for these (sorted) indices right after the
	// list, without waiting for any request (a hostile sender may do that).
	Unsolicited []int32
}

type SenderLog struct {
	Requests []Request
	Phases   int
	Goodbye  bool
}

// WholeFile builds the default reply: all literal, legal sqrt head.
func WholeFile(idx int32, data []byte, seed int32) *Reply {
	var toks []rp.Token
	const chunk = 32 * 1024
	for off := 0; off < len(data); off += chunk {
		toks = append(toks, rp.Lit(data[off:min(off+chunk, len(data))]))
	}
	return &Reply{Idx: idx, Head: rp.SumHead{Count: 0, BLen: 700, S2Len: 16, Rem: 0}, Toks: toks, Trailer: rp.FileSum(seed, data)}
}

// RunSender speaks the sender side of the update exchange on (r, w): it sends
// the file list, then answers requests until both phases are done, then reads
// the final goodbye.
func RunSender(r *rp.R, w io.Writer, s *SenderScript) (*SenderLog, error) {
	log := &SenderLog{}
	var lw rp.W
	if s.RawList != nil {
		lw.Buf(s.RawList)
	} else if err := rp.EncodeList(&lw, s.List, s.LOpts); err != nil {
		return log, err
	}
	if _, err := w.Write(lw.Bytes()); err != nil {
		return log, fmt.Errorf("writing list: %w", err)
	}
	for _, idx := range s.Unsolicited {
		rep := WholeFile(idx, s.Data[idx], s.Seed)
		var ww rp.W
		ww.Int(rep.Idx)
		rep.Head.Write(&ww)
		rp.WriteTokens(&ww, rep.Toks)
		ww.Buf(rep.Trailer[:])
		if _, err := w.Write(ww.Bytes()); err != nil {
			return log, err
		}
	}
	for {
		idx := r.Int()
		if r.Err != nil {
			return log, fmt.Errorf("reading request index: %w", r.Err)
		}
		if idx == -1 {
			log.Phases++
			var ww rp.W
			ww.Int(-1)
			if _, err := w.Write(ww.Bytes()); err != nil {
				return log, err
			}
			if log.Phases == 2 {
				break
			}
			continue
		}
		req := Request{Idx: idx}
		var ww rp.W
		if s.DryRun {
			log.Requests = append(log.Requests, req)
			ww.Int(idx)
			if _, err := w.Write(ww.Bytes()); err != nil {
				return log, err
			}
			continue
		}
		req.Sums = rp.ReadSums(r)
		if r.Err != nil {
			return log, fmt.Errorf("reading sums for %d: %w", idx, r.Err)
		}
		log.Requests = append(log.Requests, req)
		if s.OnRequest != nil {
			s.OnRequest(req)
		}
		var rep *Reply
		if s.Reply != nil {
			rep = s.Reply(req)
		}
		if rep == nil {
			rep = WholeFile(idx, s.Data[idx], s.Seed)
		}
		if rep.Skip {
			continue
		}
		if rep.Raw != nil {
			ww.Buf(rep.Raw)
		} else {
			ww.Int(rep.Idx)
			rep.Head.Write(&ww)
			rp.WriteTokens(&ww, rep.Toks)
			ww.Buf(rep.Trailer[:])
		}
		if _, err := w.Write(ww.Bytes()); err != nil {
			return log, err
		}
	}
	if s.Stats {
		var ww rp.W
		size := int64(3)
		if s.StatsSize != 0 {
			size = s.StatsSize
		}
		ww.Long(1)
		ww.Long(2)
		ww.Long(size)
		if _, err := w.Write(ww.Bytes()); err != nil {
			return log, err
		}
	}
	if s.HalfClose && s.BeforeGoodbye != nil {
		s.BeforeGoodbye()
	}
	g := r.Int()
	if r.Err != nil {
		return log, fmt.Errorf("reading goodbye: %w", r.Err)
	}
	if g != -1 {
		return log, fmt.Errorf("goodbye: got %d", g)
	}
	log.Goodbye = true
	return log, nil
}

// ---------------------------------------------------------------- scripted generator / receiver

// Response is what a sender answered for one request.
type Response struct {
	Idx     int32
	Head    rp.SumHead
	Toks    []rp.Token
	Trailer [16]byte
}

func (r *Response) LiteralBytes() (n int64) {
	for _, t := range r.Toks {
		if t.IsLit() {
			n += int64(len(t.Lit))
		}
	}
	return
}

// Generator drives a real sender.
type Generator struct {
	R *rp.R
	W io.Writer
}

func (g *Generator) Request(idx int32, sums rp.Sums) (*Response, error) {
	var w rp.W
	w.Int(idx)
	sums.Write(&w)
	if _, err := g.W.Write(w.Bytes()); err != nil {
		return nil, err
	}
	return g.ReadResponse()
}

func (g *Generator) ReadResponse() (*Response, error) {
	resp := &Response{}
	resp.Idx = g.R.Int()
	resp.Head = rp.ReadHead(g.R)
	resp.Toks = rp.ReadTokens(g.R)
	g.R.Full(resp.Trailer[:])
	if g.R.Err != nil {
		return resp, g.R.Err
	}
	return resp, nil
}

// Finish ends both phases and says goodbye. stats: the sender is a server and reports statistics.
func (g *Generator) Finish(stats bool) error {
	for phase := 0; phase < 2; phase++ {
		var w rp.W
		w.Int(-1)
		if _, err := g.W.Write(w.Bytes()); err != nil {
			return err
		}
		if v := g.R.Int(); g.R.Err != nil || v != -1 {
			return fmt.Errorf("phase %d ack: got %d err %v", phase, v, g.R.Err)
		}
	}
	if stats {
		g.R.Long()
		g.R.Long()
		g.R.Long()
		if g.R.Err != nil {
			return g.R.Err
		}
	}
	var w rp.W
	w.Int(-1)
	_, err := g.W.Write(w.Bytes())
	return err
}

// ---------------------------------------------------------------- real endpoints

func parseOpts(args []string) (*rsyncopts.Options, error) {
	osenv := &rsyncos.Env{Stdout: io.Discard, Stderr: io.Discard}
	pc := rsyncopts.NewContext(rsyncopts.NewOptionsWithGokrazyDefaults(osenv))
	if err := pc.ParseArguments(osenv, args); err != nil {
		return nil, err
	}
	return pc.Options, nil
}

// RealSender starts sender.Transfer.Do over fresh pipes and returns the
// generator-side connection plus a channel carrying Do's error.
type RealSender struct {
	Gen  *Generator
	Done chan error
	c2s  *drive.Pipe
	s2c  *drive.Pipe
	once sync.Once
	err  error
}

// StartSender runs the real sender over source (an fs.FS based source when
// src != nil, else the directory modPath) with the given server arguments,
// e.g. ["--server","--sender","-r"].
func StartSender(src sender.FileSource, modPath string, paths []string, args []string, seed int32) (*RealSender, error) {
	opts, err := parseOpts(args)
	if err != nil {
		return nil, err
	}
	c2s, s2c := drive.NewPipe(false), drive.NewPipe(false)
	crd, cwr := rsyncwire.CounterPair(c2s, s2c)
	st := &sender.Transfer{
		Logger:   nullLogger{},
		Opts:     opts,
		Conn:     &rsyncwire.Conn{Reader: crd, Writer: cwr},
		Seed:     seed,
		Env:      &rsyncos.Env{Stdout: io.Discard, Stderr: io.Discard},
		Progress: progress.NewPrinter(io.Discard, time.Now),
		Source:   src,
	}
	rs := &RealSender{Gen: &Generator{R: &rp.R{Rd: s2c}, W: c2s}, Done: make(chan error, 1), c2s: c2s, s2c: s2c}
	go func() {
		_, err := st.Do(crd, cwr, modPath, paths, nil)
		s2c.Close()
		rs.Done <- err
	}()
	return rs, nil
}

// Close tears the connection down and returns the sender's error.
func (rs *RealSender) Close() error {
	rs.once.Do(func() {
		rs.c2s.Close()
		rs.err = <-rs.Done
	})
	return rs.err
}

// RecvOpts mirrors the receiver's option struct with plain fields.
type RecvOpts struct {
	DryRun, Delete, Gid, Uid, Links, Perms, Devices, Specials, Times, IgnoreTimes, Checksum bool
}

func (o RecvOpts) transferOpts() *receiver.TransferOpts {
	return &receiver.TransferOpts{
		DryRun: o.DryRun, DeleteMode: o.Delete, PreserveGid: o.Gid, PreserveUid: o.Uid, PreserveLinks: o.Links,
		PreservePerms: o.Perms, PreserveDevices: o.Devices, PreserveSpecials: o.Specials, PreserveTimes: o.Times,
		IgnoreTimes: o.IgnoreTimes, AlwaysChecksum: o.Checksum,
		InfoGTE:  func(rsyncopts.InfoLevel, uint16) bool { return false },
		DebugGTE: func(rsyncopts.DebugLevel, uint16) bool { return false },
	}
}

// RunReceiver runs the real receiver.Transfer (file list + Do) against a
// scripted sender in the same process and returns both results.
func RunReceiver(dest string, o RecvOpts, seed int32, script *SenderScript) (recvErr error, slog *SenderLog, sendErr error, files []*receiver.File) {
	c2s, s2c := drive.NewPipe(false), drive.NewPipe(false) // c = receiver, s = scripted sender
	root, err := os.OpenRoot(dest)
	if err != nil {
		return err, nil, nil, nil
	}
	defer root.Close()
	conn := &rsyncwire.Conn{Reader: s2c, Writer: c2s}
	rt := &receiver.Transfer{
		Logger:   nullLogger{},
		Opts:     o.transferOpts(),
		Dest:     dest,
		DestRoot: root,
		Env:      &rsyncos.Env{Stdout: io.Discard, Stderr: io.Discard},
		Conn:     conn,
		Seed:     seed,
		Progress: progress.NewPrinter(io.Discard, time.Now),
	}
	done := make(chan struct{})
	script.BeforeGoodbye = func() { s2c.Close() }
	go func() {
		defer close(done)
		slog, sendErr = RunSender(&rp.R{Rd: c2s}, s2c, script)
		s2c.Close()
	}()
	fl, err := rt.ReceiveFileList()
	if err == nil {
		files = fl
		_, err = rt.Do(conn, fl, !script.Stats)
	}
	recvErr = err
	c2s.Close()
	<-done
	return
}
