package peer

import (
	"bytes"
	"fmt"

	rp "github.com/gokrazy/rsync/verifharness/refproto"
)

// PullTap is the decoded server->client stream of a session in which the
// server is the sender.
type PullTap struct {
	Seed      int32
	Frames    []rp.Frame
	List      *rp.FList
	Sorted    []rp.FEntry
	Responses []Response
	Phases    int
	Errors    []string
	Infos     []string
	Rest      int // undecoded trailing payload bytes
}

func (t *PullTap) LiteralBytes() (n int64) {
	for i := range t.Responses {
		n += t.Responses[i].LiteralBytes()
	}
	return
}

func (t *PullTap) MatchedTokens() (n int64) {
	for i := range t.Responses {
		for _, tk := range t.Responses[i].Toks {
			if !tk.IsLit() {
				n++
			}
		}
	}
	return
}

// ParsePull decodes a recorded server->client byte stream. daemon: the stream
// starts with the @RSYNCD greeting lines; otherwise with the int32 protocol
// version. dryRun: responses are bare indices.
func ParsePull(s2c []byte, o rp.ListOpts, daemon, dryRun bool) (*PullTap, error) {
	t := &PullTap{}
	b := s2c
	if daemon {
		for {
			nl := bytes.IndexByte(b, '\n')
			if nl < 0 {
				return t, fmt.Errorf("tap: no @RSYNCD: OK line")
			}
			line := string(b[:nl])
			b = b[nl+1:]
			if line == "@RSYNCD: OK" {
				break
			}
			if len(line) > 6 && line[:6] == "@ERROR" {
				t.Errors = append(t.Errors, line)
				return t, nil
			}
		}
	} else {
		if len(b) < 4 {
			return t, fmt.Errorf("tap: short stream")
		}
		b = b[4:]
	}
	if len(b) < 4 {
		return t, fmt.Errorf("tap: no seed")
	}
	t.Seed = int32(uint32(b[0]) | uint32(b[1])<<8 | uint32(b[2])<<16 | uint32(b[3])<<24)
	b = b[4:]
	frames, ferr := rp.ReadFrames(b)
	t.Frames = frames
	for _, f := range frames {
		switch f.Tag {
		case rp.TagError:
			t.Errors = append(t.Errors, string(f.Payload))
		case rp.TagInfo:
			t.Infos = append(t.Infos, string(f.Payload))
		}
	}
	payload := rp.Demux(frames)
	rd := bytes.NewReader(payload)
	r := &rp.R{Rd: rd}
	l, err := rp.DecodeList(r, o)
	t.List = l
	if err != nil {
		return t, fmt.Errorf("tap: file list: %v (frame error: %v)", err, ferr)
	}
	t.Sorted = rp.SortedIndex(l.Entries)
	for {
		idx := r.Int()
		if r.Err != nil {
			break
		}
		if idx == -1 {
			t.Phases++
			if t.Phases == 2 {
				break
			}
			continue
		}
		resp := Response{Idx: idx}
		if !dryRun {
			resp.Head = rp.ReadHead(r)
			resp.Toks = rp.ReadTokens(r)
			r.Full(resp.Trailer[:])
			if r.Err != nil {
				return t, fmt.Errorf("tap: truncated response for index %d: %v", idx, r.Err)
			}
		}
		t.Responses = append(t.Responses, resp)
	}
	if t.Phases == 2 {
		// a server-side sender reports three statistics longs after the last phase
		save := rd.Len()
		r.Long()
		r.Long()
		r.Long()
		if r.Err != nil {
			t.Rest = save
			return t, ferr
		}
	}
	t.Rest = rd.Len()
	return t, ferr
}

// PushTap is the decoded client->server stream of a session in which the
// client is the sender (daemon push or lib push).
type PushTap struct {
	List      *rp.FList
	Sorted    []rp.FEntry
	Responses []Response
	Phases    int
}

func (t *PushTap) LiteralBytes() (n int64) {
	for i := range t.Responses {
		n += t.Responses[i].LiteralBytes()
	}
	return
}

// ParsePush decodes a recorded client->server stream where the client sends.
// daemon: skip greeting/module/argument lines; else skip the int32 version.
// hasFilter: the sender side transmits an exclusion list first.
func ParsePush(c2s []byte, o rp.ListOpts, daemon, dryRun, hasFilter bool) (*PushTap, error) {
	t := &PushTap{}
	b := c2s
	if daemon {
		// lines until the empty line that ends the argument list
		for {
			nl := bytes.IndexByte(b, '\n')
			if nl < 0 {
				return t, fmt.Errorf("tap: unterminated argument lines")
			}
			line := b[:nl]
			b = b[nl+1:]
			if len(line) == 0 {
				break
			}
		}
	} else {
		if len(b) < 4 {
			return t, fmt.Errorf("tap: short stream")
		}
		b = b[4:]
	}
	rd := bytes.NewReader(b)
	r := &rp.R{Rd: rd}
	if hasFilter {
		for {
			n := r.Int()
			if r.Err != nil || n == 0 {
				break
			}
			r.Bytes(int(n))
		}
	}
	l, err := rp.DecodeList(r, o)
	t.List = l
	if err != nil {
		return t, fmt.Errorf("tap: file list: %v", err)
	}
	t.Sorted = rp.SortedIndex(l.Entries)
	for {
		idx := r.Int()
		if r.Err != nil {
			break
		}
		if idx == -1 {
			t.Phases++
			if t.Phases == 2 {
				break
			}
			continue
		}
		resp := Response{Idx: idx}
		if !dryRun {
			resp.Head = rp.ReadHead(r)
			resp.Toks = rp.ReadTokens(r)
			r.Full(resp.Trailer[:])
			if r.Err != nil {
				return t, fmt.Errorf("tap: truncated response for index %d: %v", idx, r.Err)
			}
		}
		t.Responses = append(t.Responses, resp)
	}
	return t, nil
}

// GenRequests decodes the generator's requests from a recorded stream of the
// receiving side (client->server in a pull; server->client payload in a push).
type GenTap struct {
	Requests []Request
	Phases   int
	Filters  []string
}

// ParsePullRequests decodes the client->server stream of a pull session.
func ParsePullRequests(c2s []byte, daemon, dryRun bool) (*GenTap, error) {
	t := &GenTap{}
	b := c2s
	if daemon {
		for {
			nl := bytes.IndexByte(b, '\n')
			if nl < 0 {
				return t, fmt.Errorf("tap: unterminated argument lines")
			}
			line := b[:nl]
			b = b[nl+1:]
			if len(line) == 0 {
				break
			}
		}
	} else {
		if len(b) < 4 {
			return t, fmt.Errorf("tap: short")
		}
		b = b[4:]
	}
	r := &rp.R{Rd: bytes.NewReader(b)}
	for {
		n := r.Int()
		if r.Err != nil {
			return t, r.Err
		}
		if n == 0 {
			break
		}
		t.Filters = append(t.Filters, string(r.Bytes(int(n))))
	}
	for {
		idx := r.Int()
		if r.Err != nil {
			break
		}
		if idx == -1 {
			t.Phases++
			if t.Phases == 2 {
				break
			}
			continue
		}
		req := Request{Idx: idx}
		if !dryRun {
			req.Sums = rp.ReadSums(r)
			if r.Err != nil {
				return t, r.Err
			}
		}
		t.Requests = append(t.Requests, req)
	}
	return t, nil
}
