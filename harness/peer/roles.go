package peer

import (
	"bufio"
	"context"
	"fmt"
	"io"
	"strings"
	"sync"

	"github.com/gokrazy/rsync/rsyncclient"
	"github.com/gokrazy/rsync/rsyncd"
	"github.com/gokrazy/rsync/verifharness/drive"
	rp "github.com/gokrazy/rsync/verifharness/refproto"
)

// muxWriter frames every Write as one data frame (like the real server).
type muxWriter struct{ w io.Writer }

func (m muxWriter) Write(p []byte) (int, error) {
	const max = 65536
	n := 0
	for len(p) > 0 {
		c := p
		if len(c) > max {
			c = c[:max]
		}
		if err := rp.WriteFrame(m.w, rp.TagData, c); err != nil {
			return n, err
		}
		n += len(c)
		p = p[len(c):]
	}
	return n, nil
}

// ScriptedServerSender speaks the server side (sender role) of a command-mode
// session ("lib" arrangement) on conn: version exchange, seed, multiplexed
// output, filter list, then the scripted sender.
func ScriptedServerSender(conn io.ReadWriter, s *SenderScript) (*SenderLog, []string, error) {
	r := &rp.R{Rd: conn}
	_ = r.Int() // client's protocol version
	if r.Err != nil {
		return &SenderLog{}, nil, r.Err
	}
	var w rp.W
	w.Int(rp.ProtocolVersn)
	w.Int(s.Seed)
	if _, err := conn.Write(w.Bytes()); err != nil {
		return &SenderLog{}, nil, err
	}
	var filters []string
	for {
		n := r.Int()
		if r.Err != nil {
			return &SenderLog{}, filters, r.Err
		}
		if n == 0 {
			break
		}
		filters = append(filters, string(r.Bytes(int(n))))
	}
	s.Stats = true
	log, err := RunSender(r, muxWriter{conn}, s)
	return log, filters, err
}

// ScriptedDaemonClientSender speaks the client side (sender role) of a daemon
// session: greeting, module, argument lines, then reads the seed and the
// multiplexed server output while running the scripted sender.
func ScriptedDaemonClientSender(conn io.ReadWriter, module string, args []string, s *SenderScript, sendFilterList bool) (log *SenderLog, errLine string, err error) {
	br := bufio.NewReader(conn)
	fmt.Fprintf(conn, "@RSYNCD: %d\n", rp.ProtocolVersn)
	if _, err := br.ReadString('\n'); err != nil {
		return &SenderLog{}, "", err
	}
	fmt.Fprintf(conn, "%s\n", module)
	for {
		line, err := br.ReadString('\n')
		if err != nil {
			return &SenderLog{}, "", err
		}
		line = strings.TrimSpace(line)
		if line == "@RSYNCD: OK" {
			break
		}
		if strings.HasPrefix(line, "@ERROR") {
			return &SenderLog{}, line, fmt.Errorf("daemon refused: %s", line)
		}
	}
	for _, a := range args {
		fmt.Fprintf(conn, "%s\n", a)
	}
	fmt.Fprintf(conn, "\n")
	r := &rp.R{Rd: br}
	s.Seed = r.Int()
	if r.Err != nil {
		return &SenderLog{}, "", r.Err
	}
	dm := &rp.DemuxReader{Rd: br}
	if sendFilterList {
		var w rp.W
		w.Int(0)
		conn.Write(w.Bytes())
	}
	s.Stats = false
	log, err = RunSender(&rp.R{Rd: dm}, conn, s)
	if len(dm.Errors) > 0 {
		errLine = strings.Join(dm.Errors, "; ")
	}
	return log, errLine, err
}

type lockedBuf struct {
	mu sync.Mutex
	b  strings.Builder
}

func (l *lockedBuf) Write(p []byte) (int, error) {
	l.mu.Lock()
	defer l.mu.Unlock()
	if l.b.Len() < 1<<18 {
		l.b.Write(p)
	}
	return len(p), nil
}
func (l *lockedBuf) String() string { l.mu.Lock(); defer l.mu.Unlock(); return l.b.String() }

// ClientVsScriptedServer runs the real library client (receiver) with the
// given option arguments against the scripted server-sender.
func ClientVsScriptedServer(args []string, dest string, s *SenderScript) (clientErr error, log *SenderLog, filters []string, scriptErr error, stderr string) {
	c2s, s2c := drive.NewPipe(false), drive.NewPipe(false)
	eb := &lockedBuf{}
	client, err := rsyncclient.New(args, rsyncclient.DontRestrict(), rsyncclient.WithStderr(eb))
	if err != nil {
		return err, &SenderLog{}, nil, nil, ""
	}
	done := make(chan struct{})
	s.BeforeGoodbye = func() { s2c.Close() }
	go func() {
		defer close(done)
		log, filters, scriptErr = ScriptedServerSender(&drive.RW{Reader: c2s, Writer: s2c}, s)
		s2c.Close()
	}()
	_, clientErr = client.Run(context.Background(), &drive.RW{Reader: s2c, Writer: c2s}, []string{dest})
	c2s.Close()
	<-done
	return clientErr, log, filters, scriptErr, eb.String()
}

// DaemonVsScriptedClient runs the real daemon (one writable or read-only
// module "w" at path) against the scripted client-sender.
func DaemonVsScriptedClient(mods []rsyncd.Module, module string, args []string, s *SenderScript, sendFilterList bool) (serverErr error, log *SenderLog, errLine string, scriptErr error, stderr string) {
	c2s, s2c := drive.NewPipe(false), drive.NewPipe(false)
	eb := &lockedBuf{}
	srv, err := rsyncd.NewServer(mods, rsyncd.DontRestrict(), rsyncd.WithStderr(eb), rsyncd.WithLogger(nullLogger{}))
	if err != nil {
		return err, &SenderLog{}, "", nil, ""
	}
	done := make(chan struct{})
	go func() {
		defer close(done)
		serverErr = srv.HandleDaemonConn(context.Background(), rsyncd.NewConnection(c2s, s2c, "127.0.0.1:999"))
		s2c.Close()
	}()
	s.BeforeGoodbye = func() { c2s.Close() }
	log, errLine, scriptErr = ScriptedDaemonClientSender(&drive.RW{Reader: s2c, Writer: c2s}, module, args, s, sendFilterList)
	c2s.Close()
	<-done
	return serverErr, log, errLine, scriptErr, eb.String()
}
