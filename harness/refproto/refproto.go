// Package refproto is an independent, deliberately naive implementation of
// what rsync protocol 27 puts on the wire. It shares no code with
// gokrazy/rsync (MD4 comes from golang.org/x/crypto/md4) and is the oracle
// for the wire-format, delta and framing properties as well as the engine of
// every scripted peer.
package refproto

import (
	"bytes"
	"encoding/binary"
	"errors"
	"fmt"
	"io"
	"sort"

	"golang.org/x/crypto/md4"
)

const (
	XmitTopDir    = 1 << 0
	XmitSameMode  = 1 << 1
	XmitSameRdev  = 1 << 2 // pre-28
	XmitSameUID   = 1 << 3
	XmitSameGID   = 1 << 4
	XmitSameName  = 1 << 5
	XmitLongName  = 1 << 6
	XmitSameTime  = 1 << 7
	SIFMT         = 0o170000
	SIFDIR        = 0o040000
	SIFCHR        = 0o020000
	SIFBLK        = 0o060000
	SIFREG        = 0o100000
	SIFIFO        = 0o010000
	SIFLNK        = 0o120000
	SIFSOCK       = 0o140000
	MplexBase     = 7
	TagData       = 0
	TagError      = 1
	TagInfo       = 2
	MaxFrame      = 1<<24 - 1
	ProtocolVersn = 27
)

// ---------------------------------------------------------------- primitives

type W struct{ bytes.Buffer }

func (w *W) Byte(b byte) { w.WriteByte(b) }
func (w *W) Int(v int32) {
	var b [4]byte
	binary.LittleEndian.PutUint32(b[:], uint32(v))
	w.Write(b[:])
}
func (w *W) Long(v int64) {
	if v >= 0 && v <= 0x7fffffff {
		w.Int(int32(v))
		return
	}
	w.Int(-1)
	var b [8]byte
	binary.LittleEndian.PutUint64(b[:], uint64(v))
	w.Write(b[:])
}
func (w *W) Buf(b []byte) { w.Write(b) }

type R struct {
	Rd  io.Reader
	Err error
	N   int64 // bytes consumed
}

func (r *R) Full(b []byte) {
	if r.Err != nil {
		return
	}
	n, err := io.ReadFull(r.Rd, b)
	r.N += int64(n)
	if err != nil {
		r.Err = err
	}
}
func (r *R) Byte() byte {
	var b [1]byte
	r.Full(b[:])
	return b[0]
}
func (r *R) Int() int32 {
	var b [4]byte
	r.Full(b[:])
	return int32(binary.LittleEndian.Uint32(b[:]))
}
func (r *R) Long() int64 {
	v := r.Int()
	if v != -1 {
		return int64(v)
	}
	var b [8]byte
	r.Full(b[:])
	return int64(binary.LittleEndian.Uint64(b[:]))
}
func (r *R) Bytes(n int) []byte {
	if n < 0 || n > 1<<26 {
		if r.Err == nil {
			r.Err = fmt.Errorf("refproto: absurd length %d", n)
		}
		return nil
	}
	b := make([]byte, n)
	r.Full(b)
	return b
}

// ---------------------------------------------------------------- checksums

// Weak is get_checksum1 by its definition: s1 = sum of bytes as signed chars,
// s2 = sum of the running s1 values.
func Weak(b []byte) uint32 {
	var s1, s2 uint32
	for _, c := range b {
		s1 += uint32(int32(int8(c)))
		s2 += s1
	}
	return (s1 & 0xffff) | (s2 << 16)
}

// Strong is get_checksum2 for protocol 27: MD4(data || seed).
func Strong(seed int32, b []byte) [16]byte {
	h := md4.New()
	h.Write(b)
	var s [4]byte
	binary.LittleEndian.PutUint32(s[:], uint32(seed))
	h.Write(s[:])
	var out [16]byte
	copy(out[:], h.Sum(nil))
	return out
}

// FileSum is the whole-file checksum of a transfer: MD4(seed || data).
func FileSum(seed int32, b []byte) [16]byte {
	h := md4.New()
	var s [4]byte
	binary.LittleEndian.PutUint32(s[:], uint32(seed))
	h.Write(s[:])
	h.Write(b)
	var out [16]byte
	copy(out[:], h.Sum(nil))
	return out
}

// ListSum is the -c checksum carried in the file list: plain MD4(data).
func ListSum(b []byte) [16]byte {
	h := md4.New()
	h.Write(b)
	var out [16]byte
	copy(out[:], h.Sum(nil))
	return out
}

// ---------------------------------------------------------------- sums

type SumHead struct {
	Count, BLen, S2Len, Rem int32
}

type BlockSum struct {
	Weak   uint32
	Strong [16]byte
}

type Sums struct {
	Head   SumHead
	Blocks []BlockSum
}

// LegalHead returns the head a conforming generator sends for a basis of n
// bytes cut into blocks of blen bytes.
func LegalHead(n int, blen, s2len int32) SumHead {
	if n == 0 {
		return SumHead{0, blen, s2len, 0}
	}
	return SumHead{Count: int32((n + int(blen) - 1) / int(blen)), BLen: blen, S2Len: s2len, Rem: int32(n % int(blen))}
}

// MakeSums computes the block sums of basis under head h.
func MakeSums(basis []byte, h SumHead, seed int32) Sums {
	s := Sums{Head: h}
	off := 0
	for i := int32(0); i < h.Count; i++ {
		l := int(h.BLen)
		if i == h.Count-1 && h.Rem != 0 {
			l = int(h.Rem)
		}
		end := min(off+l, len(basis))
		blk := basis[min(off, len(basis)):end]
		s.Blocks = append(s.Blocks, BlockSum{Weak: Weak(blk), Strong: Strong(seed, blk)})
		off += l
	}
	return s
}

// BlockOf returns the bytes block i denotes in basis under head h.
func BlockOf(basis []byte, h SumHead, i int32) ([]byte, error) {
	if i < 0 || i >= h.Count {
		return nil, fmt.Errorf("block %d out of range (count %d)", i, h.Count)
	}
	off := int64(i) * int64(h.BLen)
	l := int64(h.BLen)
	if i == h.Count-1 && h.Rem != 0 {
		l = int64(h.Rem)
	}
	if off+l > int64(len(basis)) {
		return nil, fmt.Errorf("block %d (%d+%d) beyond basis of %d bytes", i, off, l, len(basis))
	}
	return basis[off : off+l], nil
}

func (h SumHead) Write(w *W) {
	w.Int(h.Count)
	w.Int(h.BLen)
	w.Int(h.S2Len)
	w.Int(h.Rem)
}

func ReadHead(r *R) SumHead {
	return SumHead{r.Int(), r.Int(), r.Int(), r.Int()}
}

func (s Sums) Write(w *W) {
	s.Head.Write(w)
	for _, b := range s.Blocks {
		w.Int(int32(b.Weak))
		w.Buf(b.Strong[:s.Head.S2Len])
	}
}

func ReadSums(r *R) Sums {
	var s Sums
	s.Head = ReadHead(r)
	if s.Head.Count < 0 || s.Head.Count > 1<<22 || s.Head.S2Len < 0 || s.Head.S2Len > 16 {
		if r.Err == nil {
			r.Err = fmt.Errorf("refproto: bad sum head %+v", s.Head)
		}
		return s
	}
	for i := int32(0); i < s.Head.Count && r.Err == nil; i++ {
		var b BlockSum
		b.Weak = uint32(r.Int())
		r.Full(b.Strong[:s.Head.S2Len])
		s.Blocks = append(s.Blocks, b)
	}
	return s
}

// ---------------------------------------------------------------- tokens

// Token is one element of a delta stream: a literal run or a block reference.
type Token struct {
	Lit []byte // literal bytes (len>0), or
	Ref int32  // block index when Lit == nil
}

func Lit(b []byte) Token    { return Token{Lit: b} }
func Ref(i int32) Token     { return Token{Ref: i} }
func (t Token) IsLit() bool { return t.Lit != nil }

func WriteTokens(w *W, toks []Token) {
	for _, t := range toks {
		if t.IsLit() {
			w.Int(int32(len(t.Lit)))
			w.Buf(t.Lit)
		} else {
			w.Int(-(t.Ref + 1))
		}
	}
	w.Int(0)
}

// ReadTokens reads a token stream up to and including the end marker.
func ReadTokens(r *R) []Token {
	var out []Token
	for r.Err == nil {
		v := r.Int()
		if r.Err != nil {
			break
		}
		switch {
		case v == 0:
			return out
		case v > 0:
			out = append(out, Token{Lit: r.Bytes(int(v))})
		default:
			out = append(out, Token{Ref: -(v + 1)})
		}
	}
	return out
}

// Denote is the meaning of a token stream over a basis.
func Denote(toks []Token, basis []byte, h SumHead) ([]byte, error) {
	var out []byte
	for _, t := range toks {
		if t.IsLit() {
			out = append(out, t.Lit...)
			continue
		}
		b, err := BlockOf(basis, h, t.Ref)
		if err != nil {
			return out, err
		}
		out = append(out, b...)
	}
	return out, nil
}

// ---------------------------------------------------------------- file list

type FEntry struct {
	Name   []byte
	Len    int64
	Mtime  int32
	Mode   int32
	UID    int32
	GID    int32
	Rdev   int32
	Link   []byte
	Sum    [16]byte
	TopDir bool
	// Flags forces the optional compression flags a sender chose (encoder
	// only): any of SameMode, SameUID, SameGID, SameTime, SameRdev, SameName
	// (with Inherit bytes), LongName.
	Flags   int
	Inherit int
}

// ListOpts are the options that add optional fields to entries.
type ListOpts struct {
	UID, GID, Devices, Links, Checksum bool
	// Specials: rdev also sent for fifos/sockets under --specials (what
	// rsync >= 2.6.7 speaking protocol 27 and gokrazy do).
	Specials bool
}

func isDevice(mode int32) bool {
	m := mode & SIFMT
	return m == SIFCHR || m == SIFBLK
}
func isSpecial(mode int32) bool {
	m := mode & SIFMT
	return m == SIFIFO || m == SIFSOCK
}

func (o ListOpts) sendsRdev(mode int32) bool {
	return (o.Devices && isDevice(mode)) || (o.Specials && isSpecial(mode))
}

// EncodeEntry writes one entry. prev is the previously sent entry (for the
// "same as previous" flags, which are honoured only if the values really are
// equal — a conforming sender cannot set them otherwise). It returns an error
// if e.Flags asks for a compression the values do not allow.
func EncodeEntry(w *W, e, prev *FEntry, o ListOpts) error {
	if prev == nil {
		// a sender's "previous" values start out as zero
		prev = &FEntry{}
	}
	flags := 0
	if e.TopDir {
		flags |= XmitTopDir
	}
	want := e.Flags
	if want&XmitSameMode != 0 {
		if prev == nil || prev.Mode != e.Mode {
			return errors.New("same-mode not applicable")
		}
		flags |= XmitSameMode
	}
	if want&XmitSameTime != 0 {
		if prev == nil || prev.Mtime != e.Mtime {
			return errors.New("same-time not applicable")
		}
		flags |= XmitSameTime
	}
	if want&XmitSameUID != 0 {
		if prev == nil || prev.UID != e.UID {
			return errors.New("same-uid not applicable")
		}
		flags |= XmitSameUID
	}
	if want&XmitSameGID != 0 {
		if prev == nil || prev.GID != e.GID {
			return errors.New("same-gid not applicable")
		}
		flags |= XmitSameGID
	}
	if want&XmitSameRdev != 0 {
		if prev == nil || prev.Rdev != e.Rdev || !o.sendsRdev(e.Mode) {
			return errors.New("same-rdev not applicable")
		}
		flags |= XmitSameRdev
	}
	l1 := 0
	if want&XmitSameName != 0 {
		l1 = e.Inherit
		if prev == nil || l1 <= 0 || l1 > 255 || l1 > len(prev.Name) || l1 > len(e.Name) || !bytes.Equal(prev.Name[:l1], e.Name[:l1]) {
			return errors.New("same-name not applicable")
		}
		flags |= XmitSameName
	}
	l2 := len(e.Name) - l1
	if l2 > 255 || want&XmitLongName != 0 {
		flags |= XmitLongName
	}
	if flags&0xff == 0 {
		// a zero flag byte would terminate the list
		if e.Mode&SIFMT != SIFDIR {
			flags |= XmitTopDir
		} else {
			flags |= XmitLongName
		}
	}
	w.Byte(byte(flags))
	if flags&XmitSameName != 0 {
		w.Byte(byte(l1))
	}
	if flags&XmitLongName != 0 {
		w.Int(int32(l2))
	} else {
		w.Byte(byte(l2))
	}
	w.Buf(e.Name[l1:])
	w.Long(e.Len)
	if flags&XmitSameTime == 0 {
		w.Int(e.Mtime)
	}
	if flags&XmitSameMode == 0 {
		w.Int(e.Mode)
	}
	if o.UID && flags&XmitSameUID == 0 {
		w.Int(e.UID)
	}
	if o.GID && flags&XmitSameGID == 0 {
		w.Int(e.GID)
	}
	if o.sendsRdev(e.Mode) && flags&XmitSameRdev == 0 {
		w.Int(e.Rdev)
	}
	if o.Links && e.Mode&SIFMT == SIFLNK {
		w.Int(int32(len(e.Link)))
		w.Buf(e.Link)
	}
	if o.Checksum {
		if e.Mode&SIFMT == SIFREG {
			w.Buf(e.Sum[:])
		} else {
			w.Buf(make([]byte, 16))
		}
	}
	return nil
}

// IDList is a uid or gid name list.
type IDName struct {
	ID   int32
	Name string
}

type FList struct {
	Entries []FEntry
	Users   []IDName
	Groups  []IDName
	IOError int32
}

// EncodeList writes a complete file list: entries, terminator, id lists, io_error.
func EncodeList(w *W, l *FList, o ListOpts) error {
	var prev *FEntry
	for i := range l.Entries {
		if err := EncodeEntry(w, &l.Entries[i], prev, o); err != nil {
			return fmt.Errorf("entry %d: %v", i, err)
		}
		prev = &l.Entries[i]
	}
	w.Byte(0)
	if o.UID {
		for _, u := range l.Users {
			w.Int(u.ID)
			w.Byte(byte(len(u.Name)))
			w.Buf([]byte(u.Name))
		}
		w.Int(0)
	}
	if o.GID {
		for _, g := range l.Groups {
			w.Int(g.ID)
			w.Byte(byte(len(g.Name)))
			w.Buf([]byte(g.Name))
		}
		w.Int(0)
	}
	w.Int(l.IOError)
	return nil
}

// DecodeList reads a complete file list as a conforming protocol-27 receiver would.
func DecodeList(r *R, o ListOpts) (*FList, error) {
	l := &FList{}
	var prev FEntry
	for {
		fb := r.Byte()
		if r.Err != nil {
			return l, r.Err
		}
		if fb == 0 {
			break
		}
		flags := int(fb)
		var e FEntry
		e.Flags = flags
		l1 := 0
		if flags&XmitSameName != 0 {
			l1 = int(r.Byte())
		}
		var l2 int
		if flags&XmitLongName != 0 {
			l2 = int(r.Int())
		} else {
			l2 = int(r.Byte())
		}
		if l2 < 0 || l1+l2 >= 4096 || l1 > len(prev.Name) {
			return l, fmt.Errorf("refproto: bad name lengths l1=%d l2=%d (prev %d)", l1, l2, len(prev.Name))
		}
		e.Inherit = l1
		e.Name = append(append([]byte{}, prev.Name[:l1]...), r.Bytes(l2)...)
		e.Len = r.Long()
		if flags&XmitSameTime != 0 {
			e.Mtime = prev.Mtime
		} else {
			e.Mtime = r.Int()
		}
		if flags&XmitSameMode != 0 {
			e.Mode = prev.Mode
		} else {
			e.Mode = r.Int()
		}
		if o.UID {
			if flags&XmitSameUID != 0 {
				e.UID = prev.UID
			} else {
				e.UID = r.Int()
			}
		}
		if o.GID {
			if flags&XmitSameGID != 0 {
				e.GID = prev.GID
			} else {
				e.GID = r.Int()
			}
		}
		if o.sendsRdev(e.Mode) {
			if flags&XmitSameRdev != 0 {
				e.Rdev = prev.Rdev
			} else {
				e.Rdev = r.Int()
			}
		}
		if o.Links && e.Mode&SIFMT == SIFLNK {
			n := r.Int()
			if n < 0 || n > 1<<20 {
				return l, fmt.Errorf("refproto: bad link length %d", n)
			}
			e.Link = r.Bytes(int(n))
		}
		if o.Checksum {
			r.Full(e.Sum[:])
		}
		e.TopDir = flags&XmitTopDir != 0 && e.Mode&SIFMT == SIFDIR
		if r.Err != nil {
			return l, r.Err
		}
		l.Entries = append(l.Entries, e)
		prev = e
	}
	readIDs := func() []IDName {
		var out []IDName
		for r.Err == nil {
			id := r.Int()
			if id == 0 || r.Err != nil {
				break
			}
			n := int(r.Byte())
			out = append(out, IDName{id, string(r.Bytes(n))})
		}
		return out
	}
	if o.UID {
		l.Users = readIDs()
	}
	if o.GID {
		l.Groups = readIDs()
	}
	l.IOError = r.Int()
	return l, r.Err
}

// SortedIndex returns the entries in protocol order (unsigned bytewise by
// name); index i in the result is the file number both sides use.
func SortedIndex(ents []FEntry) []FEntry {
	out := append([]FEntry{}, ents...)
	sort.SliceStable(out, func(i, j int) bool { return bytes.Compare(out[i].Name, out[j].Name) < 0 })
	return out
}

// ---------------------------------------------------------------- multiplex

type Frame struct {
	Tag     int
	Payload []byte
}

func WriteFrame(w io.Writer, tag int, p []byte) error {
	var h [4]byte
	binary.LittleEndian.PutUint32(h[:], uint32(MplexBase+tag)<<24|uint32(len(p)))
	if _, err := w.Write(h[:]); err != nil {
		return err
	}
	_, err := w.Write(p)
	return err
}

func EncodeFrame(tag int, p []byte) []byte {
	var b bytes.Buffer
	WriteFrame(&b, tag, p)
	return b.Bytes()
}

// ReadFrames parses a complete multiplexed byte stream. A trailing partial
// frame is reported through the returned error (frames parsed so far are kept).
func ReadFrames(b []byte) ([]Frame, error) {
	var out []Frame
	for len(b) > 0 {
		if len(b) < 4 {
			return out, fmt.Errorf("truncated frame header (%d bytes)", len(b))
		}
		h := binary.LittleEndian.Uint32(b[:4])
		tag := int(h>>24) - MplexBase
		n := int(h & 0xffffff)
		if len(b) < 4+n {
			return out, fmt.Errorf("truncated frame: header says %d, have %d", n, len(b)-4)
		}
		out = append(out, Frame{Tag: tag, Payload: b[4 : 4+n]})
		b = b[4+n:]
	}
	return out, nil
}

// Demux concatenates the data frames.
func Demux(frames []Frame) []byte {
	var out []byte
	for _, f := range frames {
		if f.Tag == TagData {
			out = append(out, f.Payload...)
		}
	}
	return out
}

// DemuxReader is an io.Reader over a multiplexed stream that yields the data
// payload and collects info/error frames.
type DemuxReader struct {
	Rd     io.Reader
	cur    []byte
	Infos  []string
	Errors []string
	Frames int
}

func (d *DemuxReader) Read(p []byte) (int, error) {
	for len(d.cur) == 0 {
		var h [4]byte
		if _, err := io.ReadFull(d.Rd, h[:]); err != nil {
			return 0, err
		}
		v := binary.LittleEndian.Uint32(h[:])
		tag := int(v>>24) - MplexBase
		n := int(v & 0xffffff)
		buf := make([]byte, n)
		if _, err := io.ReadFull(d.Rd, buf); err != nil {
			return 0, err
		}
		d.Frames++
		switch tag {
		case TagData:
			d.cur = buf
		case TagInfo:
			d.Infos = append(d.Infos, string(buf))
		case TagError:
			d.Errors = append(d.Errors, string(buf))
			return 0, fmt.Errorf("peer error frame: %s", buf)
		default:
			return 0, fmt.Errorf("refproto: unknown frame tag %d", tag)
		}
	}
	n := copy(p, d.cur)
	d.cur = d.cur[n:]
	return n, nil
}
