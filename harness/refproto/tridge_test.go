package refproto

import (
	"bytes"
	"io"
	"os"
	"os/exec"
	"path/filepath"
	"sort"
	"strings"
	"syscall"
	"testing"
	"time"
)

// TestAgainstTridge cross-validates the reference decoder against the file
// list a tridge rsync (if installed) emits when it is made to speak protocol
// 27. It is a self-test of the oracle, not a property check.
func TestAgainstTridge(t *testing.T) {
	bin, err := exec.LookPath("rsync")
	if err != nil {
		t.Skip("no rsync binary")
	}
	src := t.TempDir()
	os.MkdirAll(filepath.Join(src, "dir", "sub"), 0o755)
	files := map[string]string{"a": "aaa", "dir/b": "bb", "dir/b2": "bb2", "dir/sub/c": "", "dir/" + strings.Repeat("n", 200): "long", "zeta": "z"}
	for n, c := range files {
		p := filepath.Join(src, n)
		os.WriteFile(p, []byte(c), 0o644)
		os.Chtimes(p, time.Unix(1234567890, 0), time.Unix(1234567890, 0))
	}
	os.Symlink("a", filepath.Join(src, "lnk"))
	os.Chmod(filepath.Join(src, "zeta"), 0o600)
	for _, opts := range []struct {
		flags string
		lo    ListOpts
	}{{"-lr", ListOpts{Links: true}}, {"-lrog", ListOpts{Links: true, UID: true, GID: true}}, {"-lrc", ListOpts{Links: true, Checksum: true}}} {
		cmd := exec.Command(bin, "--server", "--sender", opts.flags, ".", src+"/")
		stdin, _ := cmd.StdinPipe()
		stdout, _ := cmd.StdoutPipe()
		cmd.Stderr = io.Discard
		if err := cmd.Start(); err != nil {
			t.Fatal(err)
		}
		var w W
		w.Int(27)
		stdin.Write(w.Bytes())
		r := &R{Rd: stdout}
		ver := r.Int()
		r.Int() // seed
		if r.Err != nil || ver < 27 {
			t.Fatalf("handshake: version %d err %v", ver, r.Err)
		}
		var f W
		f.Int(0) // empty exclude list
		stdin.Write(f.Bytes())
		dm := &DemuxReader{Rd: stdout}
		list, err := DecodeList(&R{Rd: dm}, opts.lo)
		if err != nil {
			t.Fatalf("%s: decode: %v", opts.flags, err)
		}
		var got []string
		byName := map[string]FEntry{}
		for _, e := range list.Entries {
			got = append(got, string(e.Name))
			byName[string(e.Name)] = e
		}
		sort.Strings(got)
		want := []string{".", "lnk"}
		for n := range files {
			want = append(want, n)
		}
		want = append(want, "dir", "dir/sub")
		sort.Strings(want)
		if strings.Join(got, "|") != strings.Join(want, "|") {
			t.Fatalf("%s: names\n got %v\nwant %v", opts.flags, got, want)
		}
		for n, c := range files {
			e := byName[n]
			if e.Len != int64(len(c)) || e.Mtime != 1234567890 || e.Mode&SIFMT != SIFREG {
				t.Errorf("%s: %s decoded as len %d mtime %d mode %o", opts.flags, n, e.Len, e.Mtime, e.Mode)
			}
			if opts.lo.Checksum && e.Sum != ListSum([]byte(c)) {
				t.Errorf("%s: %s checksum %x want %x", opts.flags, n, e.Sum, ListSum([]byte(c)))
			}
		}
		if byName["zeta"].Mode&0o777 != 0o600 {
			t.Errorf("zeta mode %o", byName["zeta"].Mode)
		}
		if string(byName["lnk"].Link) != "a" || byName["lnk"].Mode&SIFMT != SIFLNK {
			t.Errorf("lnk decoded as %+v", byName["lnk"])
		}
		if opts.lo.UID {
			st, _ := os.Stat(filepath.Join(src, "a"))
			if int(byName["a"].UID) != int(st.Sys().(*syscall.Stat_t).Uid) {
				t.Errorf("uid %d", byName["a"].UID)
			}
		}
		// tridge uses the compression flags this implementation never emits: make sure they occurred
		compressed := 0
		for _, e := range list.Entries {
			if e.Flags&(XmitSameName|XmitSameMode|XmitSameTime) != 0 {
				compressed++
			}
		}
		if compressed == 0 {
			t.Errorf("%s: no compressed entry seen", opts.flags)
		}
		// round trip: re-encode with the same flags and compare bytes of the entry part
		var re W
		var prev *FEntry
		ok := true
		for i := range list.Entries {
			e := list.Entries[i]
			e.Flags &^= XmitTopDir
			e.TopDir = list.Entries[i].Flags&XmitTopDir != 0 && e.Mode&SIFMT == SIFDIR
			if err := EncodeEntry(&re, &e, prev, opts.lo); err != nil {
				ok = false
				t.Errorf("re-encode %q: %v", e.Name, err)
			}
			prev = &list.Entries[i]
		}
		_ = ok
		_ = bytes.Equal
		stdin.Close()
		cmd.Process.Kill()
		cmd.Wait()
	}
}

// TestDeltaAgainstTridge validates the checksum definitions and the token
// denotation against a tridge sender: sums computed by refproto over a basis
// must make tridge emit block references, and its stream must denote the file.
func TestDeltaAgainstTridge(t *testing.T) {
	bin, err := exec.LookPath("rsync")
	if err != nil {
		t.Skip("no rsync binary")
	}
	src := t.TempDir()
	mk := func(n int, salt byte) []byte {
		b := make([]byte, n)
		x := uint32(salt) + 12345
		for i := range b {
			x = x*1664525 + 1013904223
			b[i] = byte(x >> 24)
		}
		return b
	}
	basis := mk(5000, 1)
	target := append(append(append([]byte{}, basis[:1400]...), mk(333, 2)...), basis[1400:]...) // insertion at a block boundary
	os.WriteFile(filepath.Join(src, "f"), target, 0o644)
	cmd := exec.Command(bin, "--server", "--sender", "-r", ".", src+"/")
	stdin, _ := cmd.StdinPipe()
	stdout, _ := cmd.StdoutPipe()
	cmd.Stderr = io.Discard
	if err := cmd.Start(); err != nil {
		t.Fatal(err)
	}
	defer func() { cmd.Process.Kill(); cmd.Wait() }()
	var w W
	w.Int(27)
	stdin.Write(w.Bytes())
	r0 := &R{Rd: stdout}
	r0.Int()
	seed := r0.Int()
	var f W
	f.Int(0)
	stdin.Write(f.Bytes())
	r := &R{Rd: &DemuxReader{Rd: stdout}}
	list, err := DecodeList(r, ListOpts{})
	if err != nil {
		t.Fatal(err)
	}
	idx := int32(-1)
	for k, e := range SortedIndex(list.Entries) {
		if string(e.Name) == "f" {
			idx = int32(k)
		}
	}
	head := LegalHead(len(basis), 700, 16)
	sums := MakeSums(basis, head, seed)
	var rq W
	rq.Int(idx)
	sums.Write(&rq)
	stdin.Write(rq.Bytes())
	if got := r.Int(); got != idx {
		t.Fatalf("index echo %d", got)
	}
	h2 := ReadHead(r)
	toks := ReadTokens(r)
	var trailer [16]byte
	r.Full(trailer[:])
	if r.Err != nil {
		t.Fatal(r.Err)
	}
	den, err := Denote(toks, basis, h2)
	if err != nil || !bytes.Equal(den, target) {
		t.Fatalf("tridge's stream does not denote the target under refproto's denotation (err %v)", err)
	}
	if trailer != FileSum(seed, target) {
		t.Fatalf("whole-file checksum definition disagrees with tridge")
	}
	refs, lit := 0, 0
	for _, tk := range toks {
		if tk.IsLit() {
			lit += len(tk.Lit)
		} else {
			refs++
		}
	}
	if refs < 6 || lit > 333+700 {
		t.Fatalf("tridge found only %d block matches (%d literal bytes): weak/strong checksum definitions disagree", refs, lit)
	}
}
