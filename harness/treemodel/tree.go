// Package treemodel is the file-tree side of the reference model: a tree is a
// sorted list of entries that can be materialised under a scratch root,
// snapshotted back from disk, compared and hashed canonically.
package treemodel

import (
	"crypto/sha256"
	"encoding/hex"
	"fmt"
	"os"
	"path/filepath"
	"regexp"
	"sort"
	"strings"
	"syscall"
	"time"

	"golang.org/x/sys/unix"
)

// Entry types.
const (
	Reg  = 'f'
	Dir  = 'd'
	Link = 'l'
	Fifo = 'p'
	Sock = 's'
	Chr  = 'c'
	Blk  = 'b'
)

type Entry struct {
	Path   string // slash separated, relative, no leading "./"
	Type   byte
	Data   []byte // regular files
	Mode   uint32 // permission bits (incl. setuid etc. never used here)
	Mtime  int64  // seconds
	Nsec   int64
	Target string // symlinks
	Rdev   uint64 // devices
	Uid    int
	Gid    int
	// snapshot only:
	Sum  string // hex sha256 of Data (snapshots of big files drop Data)
	Size int64
	Ino  uint64 // identity of the file system object (never compared by Diff)
}

type Tree []Entry

// Sort sorts by path (bytewise) which also places parents before children
// except for names containing bytes < '/', so Materialise creates parents
// explicitly.
func (t Tree) Sort() {
	sort.Slice(t, func(i, j int) bool { return t[i].Path < t[j].Path })
}

func (t Tree) Find(p string) *Entry {
	for i := range t {
		if t[i].Path == p {
			return &t[i]
		}
	}
	return nil
}

// Clone deep-copies the tree (Data slices are shared: they are never mutated).
func (t Tree) Clone() Tree {
	o := make(Tree, len(t))
	copy(o, t)
	return o
}

// File is a shorthand constructor.
func File(path string, data []byte, mode uint32, mtime int64) Entry {
	return Entry{Path: path, Type: Reg, Data: data, Mode: mode, Mtime: mtime}
}
func D(path string, mode uint32, mtime int64) Entry {
	return Entry{Path: path, Type: Dir, Mode: mode, Mtime: mtime}
}
func L(path, target string) Entry {
	return Entry{Path: path, Type: Link, Target: target, Mode: 0o777}
}

// Materialise creates the tree under root (which is created if missing).
// Missing parent directories are created 0755.
func (t Tree) Materialise(root string) error {
	if err := os.MkdirAll(root, 0o755); err != nil {
		return err
	}
	ents := t.Clone()
	// parents first: sort by depth then path
	sort.SliceStable(ents, func(i, j int) bool {
		di, dj := strings.Count(ents[i].Path, "/"), strings.Count(ents[j].Path, "/")
		if di != dj {
			return di < dj
		}
		return ents[i].Path < ents[j].Path
	})
	for _, e := range ents {
		p := filepath.Join(root, e.Path)
		if e.Path == "." {
			p = root
		}
		if err := os.MkdirAll(filepath.Dir(p), 0o755); err != nil {
			return err
		}
		switch e.Type {
		case Reg:
			if err := os.WriteFile(p, e.Data, 0o600); err != nil {
				return err
			}
		case Dir:
			if err := os.MkdirAll(p, 0o755); err != nil {
				return err
			}
		case Link:
			if err := os.Symlink(e.Target, p); err != nil {
				return err
			}
		case Fifo:
			if err := unix.Mkfifo(p, 0o600); err != nil {
				return err
			}
		case Sock:
			if err := mksock(p); err != nil {
				return err
			}
		case Chr:
			if err := unix.Mknod(p, unix.S_IFCHR|0o600, int(e.Rdev)); err != nil {
				return err
			}
		case Blk:
			if err := unix.Mknod(p, unix.S_IFBLK|0o600, int(e.Rdev)); err != nil {
				return err
			}
		default:
			return fmt.Errorf("bad entry type %q", e.Type)
		}
		if e.Uid != 0 || e.Gid != 0 {
			if err := os.Lchown(p, e.Uid, e.Gid); err != nil {
				return err
			}
		}
	}
	// modes and mtimes, deepest first so that read-only directories and
	// directory mtimes end up as specified.
	for i := len(ents) - 1; i >= 0; i-- {
		e := ents[i]
		p := filepath.Join(root, e.Path)
		if e.Type != Link {
			if err := os.Chmod(p, os.FileMode(e.Mode&0o7777)); err != nil {
				return err
			}
		}
		ts := []unix.Timespec{{Sec: e.Mtime, Nsec: e.Nsec}, {Sec: e.Mtime, Nsec: e.Nsec}}
		if err := unix.UtimesNanoAt(unix.AT_FDCWD, p, ts, unix.AT_SYMLINK_NOFOLLOW); err != nil {
			return err
		}
	}
	return nil
}

func mksock(p string) error {
	fd, err := unix.Socket(unix.AF_UNIX, unix.SOCK_DGRAM, 0)
	if err != nil {
		return err
	}
	defer unix.Close(fd)
	// bind relative to the directory to dodge the 108 byte sun_path limit
	dir, err := os.Open(filepath.Dir(p))
	if err != nil {
		return err
	}
	defer dir.Close()
	return unix.Bind(fd, &unix.SockaddrUnix{Name: fmt.Sprintf("/proc/self/fd/%d/%s", dir.Fd(), filepath.Base(p))})
}

// Snapshot reads the tree under root. keepData: keep file contents (else only hash+size).
func Snapshot(root string, keepData bool) (Tree, error) {
	var t Tree
	err := filepath.Walk(root, func(p string, info os.FileInfo, err error) error {
		if err != nil {
			return err
		}
		rel, _ := filepath.Rel(root, p)
		if rel == "." {
			return nil
		}
		st := info.Sys().(*syscall.Stat_t)
		e := Entry{Path: filepath.ToSlash(rel), Mode: uint32(st.Mode & 0o7777), Mtime: st.Mtim.Sec, Nsec: st.Mtim.Nsec, Uid: int(st.Uid), Gid: int(st.Gid), Size: st.Size, Ino: st.Ino}
		switch st.Mode & syscall.S_IFMT {
		case syscall.S_IFREG:
			e.Type = Reg
			b, err := os.ReadFile(p)
			if err != nil {
				// unreadable (mode 000 as non-root): record marker
				e.Sum = "unreadable:" + err.Error()
			} else {
				h := sha256.Sum256(b)
				e.Sum = hex.EncodeToString(h[:8])
				if keepData {
					e.Data = b
				}
			}
		case syscall.S_IFDIR:
			e.Type = Dir
			e.Size = 0
		case syscall.S_IFLNK:
			e.Type = Link
			e.Target, _ = os.Readlink(p)
			e.Size = 0
		case syscall.S_IFIFO:
			e.Type = Fifo
		case syscall.S_IFSOCK:
			e.Type = Sock
		case syscall.S_IFCHR:
			e.Type = Chr
			e.Rdev = uint64(st.Rdev)
		case syscall.S_IFBLK:
			e.Type = Blk
			e.Rdev = uint64(st.Rdev)
		}
		t = append(t, e)
		return nil
	})
	if err != nil && !os.IsNotExist(err) {
		return t, err
	}
	t.Sort()
	return t, nil
}

// Fields selects what Canon/Diff compare.
type Fields struct {
	Mode, Mtime, Nsec, Owner, DirMtime, LinkMtime bool
}

var Full = Fields{Mode: true, Mtime: true, Nsec: true, Owner: true, DirMtime: true, LinkMtime: true}

// Line renders one entry canonically under the selected fields.
func (e Entry) Line(f Fields) string {
	var sb strings.Builder
	fmt.Fprintf(&sb, "%c %q", e.Type, e.Path)
	switch e.Type {
	case Reg:
		sum := e.Sum
		if sum == "" {
			h := sha256.Sum256(e.Data)
			sum = hex.EncodeToString(h[:8])
		}
		sz := e.Size
		if e.Data != nil {
			sz = int64(len(e.Data))
		}
		fmt.Fprintf(&sb, " size=%d sum=%s", sz, sum)
	case Link:
		fmt.Fprintf(&sb, " ->%q", e.Target)
	case Chr, Blk:
		fmt.Fprintf(&sb, " rdev=%d", e.Rdev)
	}
	if f.Mode && e.Type != Link {
		fmt.Fprintf(&sb, " mode=%04o", e.Mode)
	}
	if f.Mtime && (e.Type != Dir || f.DirMtime) && (e.Type != Link || f.LinkMtime) {
		fmt.Fprintf(&sb, " mtime=%d", e.Mtime)
		if f.Nsec {
			fmt.Fprintf(&sb, ".%09d", e.Nsec)
		}
	}
	if f.Owner {
		fmt.Fprintf(&sb, " own=%d:%d", e.Uid, e.Gid)
	}
	return sb.String()
}

func (t Tree) Canon(f Fields) string {
	var sb strings.Builder
	for _, e := range t {
		sb.WriteString(e.Line(f))
		sb.WriteByte('\n')
	}
	return sb.String()
}

func (t Tree) Hash(f Fields) string {
	h := sha256.Sum256([]byte(t.Canon(f)))
	return hex.EncodeToString(h[:8])
}

// Diff lists differences between two trees under the selected fields.
func Diff(a, b Tree, f Fields) []string {
	am := map[string]string{}
	bm := map[string]string{}
	for _, e := range a {
		am[e.Path] = e.Line(f)
	}
	for _, e := range b {
		bm[e.Path] = e.Line(f)
	}
	var out []string
	for p, l := range am {
		if bl, ok := bm[p]; !ok {
			out = append(out, "- "+l)
		} else if bl != l {
			out = append(out, "~ "+l+"  =>  "+bl)
		}
	}
	for p, l := range bm {
		if _, ok := am[p]; !ok {
			out = append(out, "+ "+l)
		}
	}
	sort.Strings(out)
	return out
}

var tempRe = regexp.MustCompile(`^\.[^/]*[0-9]+$`)

// IsTempName reports whether a top-level name looks like a renameio temp file
// ("." + basename + digits) — renameio.WithRoot creates them in the root.
func IsTempName(p string) bool {
	return !strings.Contains(p, "/") && tempRe.MatchString(p)
}

// WithoutTemps splits off renameio temp files.
func (t Tree) WithoutTemps() (clean Tree, temps Tree) {
	for _, e := range t {
		if IsTempName(e.Path) {
			temps = append(temps, e)
		} else {
			clean = append(clean, e)
		}
	}
	return
}

// RemoveAll removes a scratch tree even if it contains read-only directories.
func RemoveAll(root string) {
	filepath.Walk(root, func(p string, info os.FileInfo, err error) error {
		if err == nil && info.IsDir() {
			os.Chmod(p, 0o755)
		}
		return nil
	})
	os.RemoveAll(root)
}

// Past is a fixed base mtime (2009-02-13) used by the alphabets.
const Past = 1234567890

func UnixTime(sec int64) time.Time { return time.Unix(sec, 0) }

// SumOf is the content digest used in snapshots.
func SumOf(b []byte) string {
	h := sha256.Sum256(b)
	return hex.EncodeToString(h[:8])
}
