#!/bin/sh
# tools/seedtest.sh <seed-dir> <Cnn> [tier]: apply seeded/<dir>/patch.diff to /repo, run the check, undo.
d=/verif/seeded/$1; id=$2; tier=${3:-quick}
cd /repo || exit 2
[ -z "$(git status --porcelain)" ] || { echo "repo dirty" >&2; exit 2; }
git apply "$d/patch.diff" || { echo "patch does not apply"; exit 2; }
out=$(/verif/run "$id" "$tier" 2>&1); rc=$?
git checkout -- . ; git clean -fdq
echo "$out" | grep -E '^(VIOLATION|  symptom|C[0-9]+ (quick|thorough))' | head -8 | cut -c1-300
[ $rc -eq 1 ] && echo "SEED CAUGHT by $id $tier: $1" || echo "SEED MISSED by $id $tier (rc=$rc): $1"
