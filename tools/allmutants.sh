#!/bin/sh
# tools/allmutants.sh [Cnn...] : run every hand-made mutant against its property's quick check (sequentially)
cd /verif
ids="$@"; [ -z "$ids" ] && ids=$(ls mutants | sed 's/-.*//' | sort -u)
for id in $ids; do
  for m in mutants/$id-*.patch; do
    [ -f "$m" ] || continue
    r=$(./mutest $id $m 2>&1 | tail -1)
    echo "$(date +%H:%M:%S) $r"
  done
done
