#!/bin/sh
# tools/mkmut.sh <name> <file-in-repo> <old> <new> : create mutants/<name>.patch by textual replacement (first occurrence)
name=$1; f=$2; old=$3; new=$4
cd /repo || exit 2
[ -z "$(git status --porcelain --untracked-files=no)" ] || { echo "repo dirty" >&2; exit 2; }
python3 - "$f" "$old" "$new" <<'PY' || exit 2
import sys
f,old,new=sys.argv[1:4]
s=open(f).read()
if s.count(old)<1:
    print("pattern not found in",f); sys.exit(1)
open(f,'w').write(s.replace(old,new,1))
PY
git diff > /verif/mutants/$name.patch; git checkout -- .
echo "wrote mutants/$name.patch"
