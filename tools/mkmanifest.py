#!/usr/bin/env python3
"""Regenerates /verif/MANIFEST.json from the table below (keeps it schema-valid)."""
import json, os, sys
HERE = os.path.dirname(os.path.dirname(os.path.abspath(__file__)))
ALL = ["C%02d" % i for i in range(1, 21)]
# id -> (technique, level text, level note, design ref)
CHECKS = {
 "C20": ("bounded-exhaustive enumeration of (authorized_keys subset, layout, client key) handshakes and of exec command lines from a grammar over the option vocabulary, against the real SSH listener started through the daemon entry point; per-session oracle on greeting, stdout bytes, exit status, canary directory and a marker script",
         "16 key subsets x 3 file layouts x 6 client keys (4 listable types, unlisted, none) + the anonymous listener as real SSH handshakes; every command line 'rsync w1..wk' with k<=4 (thorough 5) over 11 tokens (--server, --daemon, --sender, -e/--rsh marker script, -vlogDtpr, ., canary paths, host:path, rsync:// URL) = 16 105 exec sessions through maincmd.Main's real session dispatch, plus shell/subsystem/pty/env requests and foreign channel types: greeting iff --server --daemon, otherwise no stdout byte, non-zero status, canary untouched, marker never executed",
         "key material is not an explored dimension; landlock is neutralised in the worker; the authorised listener's dispatch is driven (the anonymous one shares the code and needs Linux namespaces to start)",
         "DESIGN.md §5 C20"),
 "C08": ("exhaustive single-field fault enumeration on typed field sequences of valid sessions (every boundary value at every protocol field, every known option on every option line, truncation at every byte offset) against a long-lived daemon and against the library client, each in journalled worker processes; a canonical valid session after every hostile one",
         "6 daemon-session shapes x every field x its type's boundary set (ints, flag bits, names/rules/link targets with inconsistent and negative lengths, greeting/module/argument lines incl. every option the parser's help texts mention and the exit-prone ones) x truncation at every offset (~7.5k hostile sessions quick; thorough adds byte substitutions at every offset and adjacent-field pairs), and ~2.5k hostile-server streams against the client (file-list and response fields, payload truncations, malformed frame headers): the worker process must survive and the same daemon must still serve the canonical pull correctly",
         "count-like fields < 2^20 unless negative, peers close their connection, stalled sessions are abandoned after 5 s without verdict (the guarantee excludes stalls), out-of-memory is inconclusive; SSH exec lines are C20's subject",
         "DESIGN.md §5 C08"),
 "C17": ("bounded-exhaustive enumeration of re-framings of a protocol-conforming server's payload against the real client (forced boundary, uniform size, info/empty/error frames at every payload offset), reference decoding of every frame recorded from the real server, and scheduler-controlled exploration of the error-frame/first-error-wins race",
         "listing-only and small-tree sessions re-framed with a boundary at every payload offset, every uniform frame size, 1/100/1000 info frames, empty data frames and an error frame at every offset; a 600 KiB file with frame sizes around the 256 KiB buffer; all frames of 30 real server sessions validated and decoded; error frame + server exit explored with <=1 schedule deviation at 5 capacity pairs",
         "payload producer is the reference sender; frames of a live server cannot be merged across its wait points; one known finding (message lost when a write failure wins the race); frames up to 2^24-1 bytes are accepted since the repair",
         "DESIGN.md §5 C17"),
 "C05": ("bounded-exhaustive enumeration of hostile file lists (escape vector x entry type x options x destination state x receiver role x solicited/unsolicited data) sent by a scripted sender to the real receiver; full before/after snapshot of everything around the destination plus information-flow checks",
         "11 escape vectors (dot-dot forms, absolute, pre-existing relative/absolute directory symlinks, pre-existing file symlink, symlink sent earlier in the same list, '..' itself) x 7 entry types x {-a,-rlD,-a --delete} x {empty, populated} x {pulling client, writable daemon module}, with file data also pushed unsolicited, and 20 hostile sub-directory arguments of daemon uploads (incl. a sibling directory whose path starts with the module's path): the surrounding canary area (content, mode, owner, ns mtime, targets, entry set) must be bit-identical and no canary block checksum or byte may appear in requests or destination files",
         "runs as root so that misdirected chown/mknod would succeed; relative escapes are caught by running each case with the destination as working directory; single-call regressions that another os.Root-guarded call in the same path shields are not observable (defence in depth)",
         "DESIGN.md §5 C05"),
 "C06": ("bounded-exhaustive enumeration of request paths from a traversal grammar x options x module kinds against the real daemon with a scripted receiving client that also requests every index; raw stream scan for outside markers plus entry-by-entry comparison with the inside inventory",
         "all paths [mod|m|module|''](/comp){0..3} over 10 components (thorough depth 4) plus odd forms x {-r,-rl,-rc,-rlc} x {directory, MapFS, os.Root.FS()} modules with prefix-related names (~29k sessions quick): no outside content, name or mtime in the server's bytes, every listed entry matches an inside object, every served byte sequence is an inside file",
         "outside objects are recognisable by unique names/contents/mtimes; link target text of an inside symlink is inside data",
         "DESIGN.md §5 C06"),
 "C04": ("stateless model checking under the controlled transport scheduler: a destination-state invariant evaluated at every scheduling point of every execution within the deviation bound, and a connection cut injected at every scheduling point; plus a kernel (inotify) event-trace monitor for the instants between transport operations",
         "library pull, daemon pull and daemon upload of a multi-file tree (new file, delta-replaced file, replaced file, replaced symlink, new symlink) at capacities inf, 7 (receiver frozen every 7 bytes) and 0 with <=1 (thorough <=2) deviations: every listed path holds complete old or complete new content at ~2 million observed states, cutting the connection at each of ~3400 points never yields success with an incomplete destination, and no temp file survives the return of both ends; the inotify trace of all 5 arrangements shows rename-into-place only",
         "crash/kill instants are modelled by freezing the receiver at transport gates plus the inotify trace (no in-place event on a listed name means every intermediate on-disk state is old-or-new); power-loss durability (fsync ordering) is not examined",
         "DESIGN.md §5 C04"),
 "C18": ("stateless model checking of the real client and server under a controlled transport scheduler (testing/synctest quiescence + gate transport): deviation-bounded DFS over all completion orders, partial transfers and capacities; structural deadlock detection; separate free-running race-detector pass",
         "arrangements {lib-pull, lib-push, daemon-pull, daemon-push} x capacities {0,1,7,65536,inf}^2 (quick: {0,7,65536,inf}^2 + (1,1)) x trees {tiny, many-tiny, huge-literal, huge-sum-list, failing-receiver} with <=1 (thorough <=2) deviations; two sessions on one Server (pull||pull, pull||upload, upload||upload distinct/identical target) interleaved at operation granularity; local copy inside a bubble; 2..8 (thorough ..32) concurrent sessions under -race with GOMAXPROCS 1..16. Every execution must finish (no enabled operation while unfinished = deadlock) with the deviation-free / solo outcome",
         "scheduling points are transport operations (file-system syscalls are not interleaved); the local arrangement's internal io.Pipe is outside the scheduler's control (its failing-receiver behaviour is covered through lib-push at capacity 0); data races are only visible to the free-running part",
         "DESIGN.md §5 C18"),
 "C14": ("exhaustive enumeration of option subsets, each executed in all 5 arrangements on an every-type tree; differential comparison of the 5 resulting destinations (no hand-written expectation) plus absence of protocol errors",
         "all 512 subsets of {-l,-p,-t,-g,-o,-D,-c,-I,-n} with -r, combined with {--devices,--specials,--no-D,--delete,--exclude=x} (quick: singles/pairs on every 8th subset; thorough: all 16 384), 5 real sessions each against a destination with stale, quick-check-equal, extraneous and exclude-protected entries: no session may fail and all 5 destinations must agree on entry set, types, bytes, link targets, rdev, perms (-p), regular mtime (-t), owner/group (-o/-g)",
         "differential oracle: a deviation shared by all arrangements is invisible here (C01/C09/C10/C11/C13 judge absolute outcomes)",
         "DESIGN.md §5 C14"),
 "C07": ("bounded-exhaustive enumeration of upload requests (flag subsets x target forms x module configurations x transports) by a scripted daemon-protocol client against the real daemon; before/after snapshot of all module directories",
         "every subset of 10 receive-mode flags x 5 target forms x 3 module configurations (single read-only module; read-only module between writable modules with prefix-related names; fs.FS module) with benign and hostile file lists over the in-memory transport, and a stride of them over TCP (Server.Serve) and stdin/stdout (Main --server --daemon): nothing under the directory holding all modules may change and the client must see an error (with the read-only message on the deterministic transport)",
         "the scripted client sends what the daemon protocol allows a client to send; landlock is disabled in-process (it would only add protection)",
         "DESIGN.md §5 C07"),
 "C13": ("bounded-exhaustive enumeration of filter rule lists x trees x arrangements as real sessions, compared with a reference first-match filter",
         "every rule list of length <=2 (thorough <=3) over {exclude, include} x 6 names spelled via --exclude/--include/-f on 3 trees (names recurring at depths 1-3, files and directories in every sort position) in all 5 arrangements: destination entry set and bytes must equal the reference selection; wildcard rules must produce an error in every arrangement",
         "plain-name rules only, as the property states; reference filter = first rule whose name equals the base name",
         "DESIGN.md §5 C13"),
 "C09": ("bounded-exhaustive enumeration of destination trees (every subset of <=3 extraneous entries per directory in every sort position) x --delete x exclude x I/O-error x arrangements as real sessions, compared with a reference deletion model",
         "source {a,c,e,d/,d/a,d/c}; destinations with listed entries (up to date/stale/missing) plus all subsets of extraneous {0,b,f,z/} and {d/0,d/b,d/z} (thorough: files, non-empty directories, symlinks, fifos) x --delete on/off x exclude {none,b,z} x sender I/O error (vanished source argument; scripted sender flag in both receiver roles) x 5 arrangements; entry set after success must equal listed + protected, nothing removed without --delete or with the I/O error flag, canary outside untouched",
         "entries below an extraneous, unprotected directory may either go with it or stay with their ancestors (both readings accepted); directory-contents form only",
         "DESIGN.md §5 C09"),
 "C11": ("bounded-exhaustive enumeration of real sessions over value pools: all 512 permission values on files and directories, boundary mtimes, link targets, device numbers, owners x every preserve-option subset x 5 arrangements x prior destination states; non-root workers for read-only directory trees",
         "perms 0000..0777 on files and directories x 6 option sets x 5 arrangements x 3 prior states; 10 boundary mtimes (pre-1970, sub-second, 2^31-1, 'just now'), 8 link targets up to 4095 bytes, 16 rdevs x {chr,blk}, fifo, socket, 4 owners x all 64 subsets of {-p,-t,-l,-D,-o,-g} x 5 arrangements x 3 prior states; uid-65534 workers receive nested directories lacking owner write permission (5x5x2 mode combinations); every destination entry is lstat-compared with the source under the property's per-option rules",
         "runs as root on tmpfs for owner/device cases, as uid 65534 for the read-only-directory cases; id mapping by name across hosts is not demanded",
         "DESIGN.md §5 C11"),
 "C10": ("bounded-exhaustive enumeration of real dry-run sessions: every-type/every-situation tree pair x all option subsets x 5 arrangements, and all 15 625 pairs of small trees; full before/after snapshot comparison plus wire tap",
         "every subset of {-l,-p,-t,-g,-o,-D,-c,-I} (+--delete/--devices/--specials) with -rn in all arrangements on a tree pair containing each of 7 entry types in each of {missing, different, same, wrong type, metadata-only difference} plus extraneous entries, and all pairs of trees over 3 names x 5 kinds; the destination snapshot (types, bytes, mode, ns mtime, targets, rdev, owner) must be identical, the session must succeed, and the decoded stream must carry no literal bytes",
         "runs as root on tmpfs; atime/ctime not compared; the local arrangement's wire is not tapped (in-process pipes)",
         "DESIGN.md §5 C10"),
 "C15": ("bounded-exhaustive enumeration of protocol-27 file-list encodings (independent reference codec) against the real decoder, and reference decoding of the real encoder's stream in every arrangement/option set; index numbering cross-checked in both directions",
         "decoder: every list of <=2 entries from a 10/12-entry feature pool x every subset of compression flags a conforming sender may use x all 32 option sets; encoder: every-type tree x 32 option sets x {daemon, command} x {pull, push}, sparse files up to 2^40 bytes for the 64-bit length encoding; numbering on names where plausible wrong orders differ",
         "the reference codec (refproto) is the authority: it transcribes rsync 2.6.x flist.c; no foreign rsync is required (tridge rsync, if present, is only used by an optional self-test of refproto)",
         "DESIGN.md §5 C15"),
 "C03": ("exhaustive single-fault enumeration on a scripted reference sender's stream against the real receiver in both roles (every bit position of the data segment, every token substitution/transposition/duplication/deletion, forged partial-collision trailers, basis edits)",
         "for three file shapes and two receiver roles every one of the ~14k single-bit flips of the data segment, all token-level faults of 3 streams with the true trailer, forged trailers agreeing in k<16 bytes with the damaged data's checksum, and 6 third-party basis edits between signature generation and reconstruction run as real sessions; outcome must be (error and previous content kept) or (success and destination == source)",
         "trusts refproto's encoding of the undamaged stream (validated by the control part); MD4 collisions are modelled (forged trailers), not found; thorough adds two-file sessions",
         "DESIGN.md §5 C03"),
 "C12": ("exhaustive decision table executed against the real receiver in both roles with a scripted reference sender recording requested indices, plus explicit-state BFS over sync histories with wire taps",
         "all cells {missing, same, larger, smaller} x 5 mtime relations x content equal/different x {default,-c,-I,-cI} x {-t on/off} x non-regular destination types x 3 sibling positions x {client, daemon module} and BFS depth 3 (thorough 4) over edits and syncs with 5 option sets; the decoded request set of every real session must equal the reference rule, no-op syncs move no data, model successor states are validated against the real destination",
         "trusts the reference rule transcription and refproto's decoding of requests; history universe is 2 files",
         "DESIGN.md §5 C12"),
 "C16": ("bounded-exhaustive enumeration of shifts and edit scripts against the real sender (reference-computed sums) and of whole sessions with the real generator; literal bytes counted from the decoded token stream",
         "every shift 0..B for B in {8,32,700}, every edit script of depth <=2 over {insert,delete,replace} x 5 lengths x 9 offsets, identical/prepend/append/all block permutations, and real-generator sessions at 28 KB/600 KB (thorough: 1-20 MiB); each stream must denote the target and stay within inserted + 3B per edit + B literal bytes (0 for identical files and permutations)",
         "bound has 3B slack per edit; content is counter-hash (no accidental repeats); efficiency on low-entropy data is not demanded",
         "DESIGN.md §5 C16"),
 "C02": ("bounded-exhaustive enumeration of (target, basis, block layout) triples against the real sender and of (basis, token stream) pairs against the real receiver, judged by an independent codec/denotation (refproto)",
         "sender: all targets x all bases over a 2-3 letter alphabet (bytes >= 0x80 included) up to length 6/8, block lengths 1..4, strong length 16 and 2, plus forged sum sets whose strong sums agree in only k<16 bytes, plus (thorough) structured layouts B=700..131072 from all edit scripts of depth <=3; receiver: every token stream of <=3/4 tokens over literals and all block references for every basis of length <=4 and B=1..3; every response/file compared with the reference denotation and MD4(seed||target)",
         "trusts refproto (x/crypto MD4, weak checksum by definition); strong-sum collisions are modelled by forged sums rather than found",
         "DESIGN.md §5 C02"),
 "C01": ("bounded-exhaustive enumeration of real sessions: file matrix (size x content family x prior-destination variant) x all 512 option subsets x 5 arrangements, plus source-form and long-name parts; every destination file compared with the reference update rule",
         "every option subset of {-l,-p,-t,-g,-o,-D,-c,-I,-a}+-r in every arrangement (daemon pull/push, local, library pull/push) runs a real in-process session over a tree containing the full product of boundary sizes, content families and 20 prior-destination variants; destination bytes are compared per file with the size+mtime / -c / -I rule; source forms (dir, single file, two sources, no -r) and boundary sizes up to 3 MiB (thorough) are separate parts",
         "trusts the tree model (tmpfs lstat/readfile), runs as root, in-memory transport with unbounded buffering (transport behaviour is C18's subject); known findings listed in KNOWN_FINDINGS.txt",
         "DESIGN.md §5 C01"),
 "C19": ("bounded-exhaustive explicit-state enumeration of (ACL rule list, client address) pairs, each decided by a real daemon handshake and compared with an independent first-match evaluator",
         "every rule list of length <=3 over an 18-rule (quick) / 28-rule (thorough) pool x 16/26 boundary addresses is executed against the real HandleDaemonConn; grant/refusal, absence of any byte after @ERROR and actual delivery of module data after OK are compared with a reference evaluator",
         "trusts the reference evaluator (netip bit-prefix comparison) and that the daemon names connections by net.Conn.RemoteAddr().String(); key material, DNS names are outside the space",
         "DESIGN.md §5 C19"),
}
NOT_BUILT_REASON = "check not built yet in this revision (planned in DESIGN.md §5); nothing is claimed for it"
# parts added after the first build (each closed a gap shown by a seeded change or a defect report)
EXTRA = {
 "C01": "Added: two prefix-named directories named without trailing slash, a file from each. Added: directories and contents below the source root as sources; part cli = the gokr-rsync command in its own process with its default landlock sandbox for 8 ways of naming the source x {-r,-a,-rt,-d} x {local, push, pull over loopback}.",
 "C02": "Added: receiver-large (19 streams at the scale other senders produce: single literal tokens up to 3 MiB+1, 3000-token streams, 131072-byte blocks in reverse order with the short block first) and, in sender-large, block lengths above the sender's 256 KiB read chunk (262145, 300000; thorough 262144 and 2^20) with a 600001-byte literal op.",
 "C03": "Added: part length (honest streams whose length differs from the announced one). Added: header-echo variants (all-zero header as tridge echoes it, strong length 0/2/15) and the demand that a kept file is not re-stamped with the new version's time; flips that declare a literal of >= 16 MiB are skipped and counted.",
 "C04": "Added: a symlink whose place is taken by a non-empty directory (no temporary symlink may remain); the inotify part also runs with --delete. Added: files whose leading full blocks are unchanged (appended data; shorter different end), a directory created by the transfer; after a connection break every order of the first failure is explored; quick freezes every 11 bytes (thorough 7 and 1).",
 "C05": "Added: names with a NUL byte after a symlink's name, '/.' and '//' tails; a sibling whose path starts with the module's path as upload sub-directory. Added: 8 vectors whose hostile entry lies several levels below the escaping component with unlisted parents.",
 "C07": "Added: part config (module tables from configuration files through every loader). Added: part histories = one long-lived Server with a read-only module sharing its directory with a writable one; uploads to read-only modules after 0/1/2 rounds of legitimate uploads.",
 "C10": "Added: extraneous read-only directories, fifo, mode-000 file. Added: names sorting between a directory and its contents next to missing / wrong-type directories, deeper levels below them.",
 "C20": "Added: daemon-side option tokens (--gokr.modulemap, --gokr.config) in the exec grammar; every greeted session is asked for its module list and for a module it must not have; ordered pairs of authentication attempts (key offered without proof, then a signed key) on one connection.",
 "C17": "Added: shape listing-64bit (sizes and statistics in the 64-bit encoding, total size compared).",
 "C11": "Added: prior destination states for devices/specials, device nodes with equal numbers that are not neighbours, empty prior files.",
 "C08": "Added: part client-cli (the command in its own process against an interactive scripted daemon; listing without destination). Added: every pair of deviations inside one checksum header; complete frames of 13 lengths (0..2^24-1) x 8 tags x 4 positions against the client; part vanishing (client drops the connection after N bytes of a 24 MiB download, canonical pull follows at once); shape upload-delta (echoed checksum header and block references against a copy the module holds), module reset before every hostile session.",
 "C09": "Added: the vanished source argument in first position. Added: anchored and path exclude rules for both source forms. Added: names that sort between a directory and its contents (d-old, d.bak/), identity (inode) of listed up-to-date entries, directory-only rules (b/, z/), non-recursive -d transfers, and sources named without trailing slash with siblings next to the transferred directory.",
 "C12": "Added: part repeat = whole sessions run twice over boundary mtimes in 5 arrangements x 6 option sets (second run must leave every entry the same file system object), the -c rule with the real sender's list checksums for sizes 0..1 MiB, sparse up-to-date files of 2^31-1..5 GiB; all syncs of the histories part run in one directory (long-lived server).",
 "C13": "Added: part shapes = rule lists over trailing-slash, leading-slash and path rules: refused or exactly the denoted selection.",
 "C14": "Added: option sets with -d instead of -r and with neither.",
 "C15": "Added: numbering with names that sort before '.' next to the '.' entry, and with duplicate names in both directions.",
 "C16": "Added: part long-runs = inserted/replaced/prepended runs of 256 KiB-1 .. 768 KiB+2B+1 around the sender's flush threshold, one or two per file; deletions of 1/2, 1/3, 3/5, 9/10 of the file with the real generator; part multi = several files through the delta path of one session.",
 "C18": "Added: option sets (deleting push with 40 rules, -a, -rtc, refused rule list), a source whose files vanish after the listing. Added: part aborted = a 24 MiB download dropped by the peer mid-file followed at once by 4 concurrent ordinary downloads, under the race detector.",
 "C19": "Added: part neighbours = three prefix-named modules with their own rule lists on one server, asked in rotating order; nested networks sharing their network address.",
}

def main():
    checks = []
    for pid in ALL:
        if pid not in CHECKS: continue
        tech, text, note, ref = CHECKS[pid]
        if pid in EXTRA:
            text = text + " " + EXTRA[pid]
        checks.append({
            "property_id": pid,
            "quick_cmd": "./run %s quick" % pid,
            "thorough_cmd": "./run %s thorough" % pid,
            "evidence_file": "/verif/evidence/%s.json" % pid,
            "replay_cmd_template": "./run replay {path}",
            "engine": "vcheck",
            "level_claimed": {"category": "model_checking", "text": text, "design_ref": ref},
            "level_note": note,
            "technique": tech,
        })
    m = {
        "version": 1,
        "setup_cmd": "./run build",
        "hooks": {"guard": "verif", "enable": "no hooks are needed: the harness module (path nested under github.com/gokrazy/rsync) imports the repository's internal packages directly through a replace directive pointing at /repo", "baseline_off_cmd": "cd /repo && GOFLAGS=-mod=mod GOPROXY=off go test -vet=off -count=1 ./...", "source_commits": [], "add_only": True},
        "engines": [{"name": "vcheck", "path": "/verif/harness", "serves_properties": sorted(CHECKS), "kind_free_text": "hand-written Go explorers executing the real gokrazy/rsync code: bounded-exhaustive case enumeration sharded over journalled worker subprocesses, synctest-based controlled transport scheduler with deviation-bounded DFS, BFS over sync histories; reference protocol codec and tree model as oracles"}],
        "checks": checks,
        "not_applicable": [{"property_id": p, "reason": NOT_BUILT_REASON} for p in ALL if p not in CHECKS],
        "notes": "All commands run from /verif. ./run rebuilds the harness against /repo's working tree on every call. Known findings: /verif/KNOWN_FINDINGS.txt.",
    }
    json.dump(m, open(os.path.join(HERE, "MANIFEST.json"), "w"), indent=1)
    try:
        import jsonschema
        jsonschema.validate(m, json.load(open("/root/.vp/MANIFEST.schema.json")))
        print("MANIFEST valid;", len(checks), "checks")
    except ImportError:
        print("written (jsonschema not available)")
main()
