#!/bin/sh
# tools/rebase-patches.sh: re-create mutants/seeds that no longer apply to /repo HEAD (3-way merge in a scratch worktree).
# Prints MANUAL for those that need hand work.
wt=/tmp/wt/rebase
git -C /repo worktree add --detach $wt HEAD -q || exit 2
cd $wt
for m in /verif/mutants/*.patch /verif/seeded/*/patch.diff; do
  git -C /repo apply --check $m 2>/dev/null && continue
  git checkout -q -- . ; git clean -fdq
  if git apply -3 $m >/dev/null 2>&1 && [ -z "$(git diff --name-only --diff-filter=U)" ] && GOFLAGS=-mod=mod GOPROXY=off go build ./... 2>/dev/null; then
    git diff HEAD > $m; echo "rebased $m"
  else
    echo "MANUAL $m"
  fi
  git reset -q --hard
done
cd /; git -C /repo worktree remove --force $wt
