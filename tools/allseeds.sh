#!/bin/sh
# tools/allseeds.sh: run every stored seeded change against the quick check of its property (sequentially)
cd /verif
for d in seeded/*/; do
  n=$(basename $d); id=${n%%-*}
  git -C /repo apply --check /verif/$d/patch.diff 2>/dev/null || { echo "$(date +%H:%M:%S) SKIP (does not apply to the repaired tree): $n"; continue; }
  r=$(tools/seedtest.sh $n $id 2>&1 | tail -1)
  echo "$(date +%H:%M:%S) $r"
done
